//! The implementation side of the C08 round trip: run the real parser (+ metadata extraction +
//! `gluon_parser::reparse_infix`), render the resulting `gluon_base::ast` tree canonically, export
//! it with its spans for the verified span checker, and export the raw / layout token streams.
//!
//! What "the parser" is here (documented choice): `gluon_parser::parse_partial_root_expr` over a
//! plain `Symbols` environment, then `gluon_check::metadata::metadata` (to collect the
//! `#[infix(..)]` attributes of the operator declarations in the source) and
//! `gluon_parser::reparse_infix`, i.e. trees are compared AFTER infix re-association.  Macro
//! expansion and renaming (which sit between parsing and re-association in
//! `gluon::compiler_pipeline`) are not run: they do not change the shape or the spans of the tree
//! for the programs used here (no macros; every operator is declared exactly once).
use gluon_base::ast::{
    Alternative, Argument, AstType, Expr, ExprField, Literal, Pattern, PatternField, RootExpr, SpannedExpr, SpannedIdent,
    SpannedPattern, TypeBinding, ValueBinding, ValueBindings,
};
use gluon_base::pos::{BytePos, HasSpan, Span};
use gluon_base::symbol::{Symbol, Symbols};
use gluon_base::types::{Type, TypeCache};

pub struct Parsed {
    pub root: Option<RootExpr<Symbol>>,
    /// parse errors (display), empty when the parser accepted the input
    pub errors: Vec<String>,
    /// errors of metadata/reparse_infix
    pub infix_errors: Vec<String>,
}

/// Parse `src`; `reparse` = also run infix re-association.
pub fn parse(src: &str, reparse: bool) -> Parsed {
    let mut symbols = Symbols::new();
    let type_cache: TypeCache<Symbol, gluon_base::types::ArcType> = TypeCache::new();
    let r = gluon_parser::parse_partial_root_expr(&mut symbols, &type_cache, src);
    let (root, errors) = match r {
        Ok(root) => (Some(root), vec![]),
        Err((root, errs)) => (root, errs.into_iter().map(|e| format!("{}..{}: {}", e.span.start(), e.span.end(), e.value)).collect()),
    };
    let mut infix_errors = vec![];
    let root = root.map(|mut root| {
        if reparse {
            let (_, metadata_map) = gluon_check::metadata::metadata(&(), root.expr());
            let r = root.with_arena(|arena, expr| gluon_parser::reparse_infix(arena.borrow(), &metadata_map, &symbols, expr));
            if let Err(errs) = r {
                infix_errors = errs.into_iter().map(|e| format!("{}", e.value)).collect();
            }
        }
        root
    });
    Parsed { root, errors, infix_errors }
}

// ---------------------------------------------------------------------------------------------
// canonical rendering (spans stripped, 1-tuples = parentheses removed, symbols by declared name)

fn nm(s: &Symbol) -> &str {
    s.declared_name()
}

pub fn hex(bytes: &[u8]) -> String {
    let mut s = String::with_capacity(bytes.len() * 2 + 1);
    if bytes.is_empty() {
        s.push('-');
    }
    for b in bytes {
        s.push_str(&format!("{:02x}", b));
    }
    s
}

pub fn show_lit(l: &Literal, out: &mut String) {
    match l {
        Literal::Int(i) => out.push_str(&format!("(int {})", i)),
        Literal::Byte(b) => out.push_str(&format!("(byte {})", b)),
        Literal::Float(f) => out.push_str(&format!("(float {:016x})", f.into_inner().to_bits())),
        Literal::String(s) => out.push_str(&format!("(str {})", hex(s.as_bytes()))),
        Literal::Char(c) => out.push_str(&format!("(char {})", *c as u32)),
    }
}

pub fn show_type(t: &AstType<Symbol>, out: &mut String) {
    match &**t {
        Type::Hole => out.push_str("_"),
        Type::Builtin(b) => out.push_str(b.to_str()),
        Type::Ident(id) => out.push_str(nm(&id.name)),
        Type::Generic(g) => out.push_str(nm(&g.id)),
        Type::Function(_, a, r) => {
            out.push_str("(-> ");
            show_type(a, out);
            out.push(' ');
            show_type(r, out);
            out.push(')');
        }
        Type::App(f, args) => {
            out.push_str("(tapp ");
            show_type(f, out);
            for a in args.iter() {
                out.push(' ');
                show_type(a, out);
            }
            out.push(')');
        }
        Type::Record(row) => {
            out.push_str("(trec");
            show_row(row, out);
            out.push(')');
        }
        Type::Variant(row) => {
            out.push_str("(tvar");
            show_row(row, out);
            out.push(')');
        }
        Type::Forall(params, t) => {
            out.push_str("(forall (");
            for (i, p) in params.iter().enumerate() {
                if i > 0 {
                    out.push(' ');
                }
                out.push_str(nm(&p.id));
            }
            out.push_str(") ");
            show_type(t, out);
            out.push(')');
        }
        Type::Opaque => out.push_str("<opaque>"),
        Type::EmptyRow => out.push_str("<>"),
        _ => out.push_str("<?type>"),
    }
}

fn show_row(row: &AstType<Symbol>, out: &mut String) {
    let mut cur = row;
    loop {
        match &**cur {
            Type::ExtendRow { fields, rest } => {
                for f in fields.iter() {
                    out.push_str(&format!(" ({} ", nm(&f.name.value)));
                    show_type(&f.typ, out);
                    out.push(')');
                }
                cur = rest;
            }
            Type::ExtendTypeRow { types, rest } => {
                for f in types.iter() {
                    out.push_str(&format!(" (type {})", nm(&f.name.value)));
                }
                cur = rest;
            }
            Type::EmptyRow => break,
            _ => {
                out.push_str(" | ");
                show_type(cur, out);
                break;
            }
        }
    }
}

pub fn show_pat(p: &SpannedPattern<Symbol>, out: &mut String) {
    match &p.value {
        Pattern::Ident(id) => out.push_str(&format!("(pid {})", nm(&id.name))),
        Pattern::Constructor(id, args) => {
            out.push_str(&format!("(pctor {}", nm(&id.name)));
            for a in args.iter() {
                out.push(' ');
                show_pat(a, out);
            }
            out.push(')');
        }
        Pattern::As(id, p) => {
            out.push_str(&format!("(pas {} ", nm(&id.value)));
            show_pat(p, out);
            out.push(')');
        }
        Pattern::Tuple { elems, .. } => {
            out.push_str("(ptuple");
            for a in elems.iter() {
                out.push(' ');
                show_pat(a, out);
            }
            out.push(')');
        }
        Pattern::Record { fields, implicit_import, .. } => {
            out.push_str("(prec");
            for f in fields.iter() {
                match f {
                    PatternField::Type { name } => out.push_str(&format!(" (tf {})", nm(&name.value))),
                    PatternField::Value { name, value: None } => out.push_str(&format!(" ({})", nm(&name.value))),
                    PatternField::Value { name, value: Some(v) } => {
                        out.push_str(&format!(" ({} ", nm(&name.value)));
                        show_pat(v, out);
                        out.push(')');
                    }
                }
            }
            if implicit_import.is_some() {
                out.push_str(" ?");
            }
            out.push(')');
        }
        Pattern::Literal(l) => {
            out.push_str("(plit ");
            show_lit(l, out);
            out.push(')');
        }
        Pattern::Error => out.push_str("(perr)"),
    }
}

fn show_binding(b: &ValueBinding<Symbol>, out: &mut String) {
    out.push_str("(bind ");
    show_pat(&b.name, out);
    out.push_str(" (");
    for (i, a) in b.args.iter().enumerate() {
        if i > 0 {
            out.push(' ');
        }
        out.push_str(nm(&a.name.value.name));
    }
    out.push_str(") ");
    match &b.typ {
        Some(t) => show_type(t, out),
        None => out.push('-'),
    }
    out.push(' ');
    show(&b.expr, out);
    out.push(')');
}

fn show_type_binding(b: &TypeBinding<Symbol>, out: &mut String) {
    out.push_str(&format!("(tb {} (", nm(&b.name.value)));
    for (i, p) in b.alias.value.params().iter().enumerate() {
        if i > 0 {
            out.push(' ');
        }
        out.push_str(nm(&p.id));
    }
    out.push_str(") ");
    show_type(b.alias.value.unresolved_type(), out);
    out.push(')');
}

pub fn show(e: &SpannedExpr<Symbol>, out: &mut String) {
    match &e.value {
        Expr::Ident(id) => out.push_str(&format!("(id {})", nm(&id.name))),
        Expr::Literal(l) => show_lit(l, out),
        Expr::App { func, implicit_args, args } => {
            out.push_str("(app ");
            show(func, out);
            for a in implicit_args.iter() {
                out.push_str(" ?");
                show(a, out);
            }
            for a in args.iter() {
                out.push(' ');
                show(a, out);
            }
            out.push(')');
        }
        Expr::Lambda(l) => {
            out.push_str("(lam (");
            for (i, a) in l.args.iter().enumerate() {
                if i > 0 {
                    out.push(' ');
                }
                out.push_str(nm(&a.name.value.name));
            }
            out.push_str(") ");
            show(l.body, out);
            out.push(')');
        }
        Expr::IfElse(c, t, f) => {
            out.push_str("(if ");
            show(c, out);
            out.push(' ');
            show(t, out);
            out.push(' ');
            show(f, out);
            out.push(')');
        }
        Expr::Match(s, alts) => {
            out.push_str("(match ");
            show(s, out);
            for a in alts.iter() {
                out.push_str(" (alt ");
                show_pat(&a.pattern, out);
                out.push(' ');
                show(&a.expr, out);
                out.push(')');
            }
            out.push(')');
        }
        Expr::Infix { lhs, op, rhs, .. } => {
            out.push_str("(infix ");
            show(lhs, out);
            out.push_str(&format!(" {} ", nm(&op.value.name)));
            show(rhs, out);
            out.push(')');
        }
        Expr::Projection(b, f, _) => {
            out.push_str("(proj ");
            show(b, out);
            out.push_str(&format!(" {})", nm(f)));
        }
        Expr::Array(a) => {
            out.push_str("(array");
            for x in a.exprs.iter() {
                out.push(' ');
                show(x, out);
            }
            out.push(')');
        }
        Expr::Record { types, exprs, base, .. } => {
            out.push_str("(record");
            for t in types.iter() {
                out.push_str(&format!(" (tf {})", nm(&t.name.value)));
            }
            for f in exprs.iter() {
                match &f.value {
                    None => out.push_str(&format!(" ({})", nm(&f.name.value))),
                    Some(v) => {
                        out.push_str(&format!(" ({} ", nm(&f.name.value)));
                        show(v, out);
                        out.push(')');
                    }
                }
            }
            if let Some(b) = base {
                out.push_str(" (base ");
                show(b, out);
                out.push(')');
            }
            out.push(')');
        }
        Expr::Tuple { elems, .. } => {
            if elems.len() == 1 {
                // a parenthesised expression: normalised away (on both sides)
                show(&elems[0], out);
            } else {
                out.push_str("(tuple");
                for x in elems.iter() {
                    out.push(' ');
                    show(x, out);
                }
                out.push(')');
            }
        }
        Expr::LetBindings(bs, body) => {
            match bs {
                ValueBindings::Plain(b) => {
                    out.push_str("(let ");
                    show_binding(b, out);
                }
                ValueBindings::Recursive(bs) => {
                    out.push_str("(rec");
                    for b in bs.iter() {
                        out.push(' ');
                        show_binding(b, out);
                    }
                }
            }
            out.push(' ');
            show(body, out);
            out.push(')');
        }
        Expr::TypeBindings(bs, body) => {
            out.push_str("(type");
            for b in bs.iter() {
                out.push(' ');
                show_type_binding(b, out);
            }
            out.push(' ');
            show(body, out);
            out.push(')');
        }
        Expr::Block(es) => {
            // only reachable for an empty block; a singleton is flattened by shrink_hidden_spans and
            // longer ones are folded into `Do` by the grammar
            out.push_str("(block");
            for x in es.iter() {
                out.push(' ');
                show(x, out);
            }
            out.push(')');
        }
        Expr::Do(d) => {
            match &d.id {
                None => out.push_str("(seq "),
                Some(p) => {
                    out.push_str("(do ");
                    show_pat(p, out);
                    out.push(' ');
                    match &d.typ {
                        Some(t) => show_type(t, out),
                        None => out.push('-'),
                    }
                    out.push(' ');
                }
            }
            show(d.bound, out);
            out.push(' ');
            show(d.body, out);
            out.push(')');
        }
        Expr::MacroExpansion { original, .. } => show(original, out),
        Expr::Annotated(e, _) => show(e, out),
        Expr::Error(_) => out.push_str("(error)"),
    }
}

// ---------------------------------------------------------------------------------------------
// span tree export for the verified checker (coq/theories/Front/SpanCheck.v)
//
//   node ::= "(" lo hi leaf node* ")"          offsets are 0-based byte offsets into the source
//   leaf ::= "-"                                inner node
//          | "i:" hex                           identifier / operator with that name
//          | "n:" decimal                       integer literal with that value
//          | "b:" decimal                       byte literal
//          | "s" | "c" | "f"                    string / char / float literal

pub struct SpanOut {
    pub s: String,
    pub nodes: usize,
    pub leaves: usize,
    base: u32,
}

impl SpanOut {
    pub fn new(base: u32) -> SpanOut {
        SpanOut { s: String::new(), nodes: 0, leaves: 0, base }
    }
    fn open(&mut self, sp: Span<BytePos>, leaf: &str) {
        self.nodes += 1;
        if leaf != "-" {
            self.leaves += 1;
        }
        let lo = sp.start().to_usize() as i64 - self.base as i64;
        let hi = sp.end().to_usize() as i64 - self.base as i64;
        self.s.push_str(&format!("( {} {} {} ", lo, hi, leaf));
    }
    fn close(&mut self) {
        self.s.push_str(") ");
    }
    fn ident(&mut self, sp: Span<BytePos>, name: &Symbol) {
        self.open(sp, &format!("i:{}", hex(name.definition_name().as_bytes())));
        self.close();
    }
}

fn lit_leaf(l: &Literal) -> String {
    match l {
        Literal::Int(i) => format!("n:{}", i),
        Literal::Byte(b) => format!("b:{}", b),
        Literal::Float(_) => "f".into(),
        Literal::String(_) => "s".into(),
        Literal::Char(_) => "c".into(),
    }
}

fn span_type(t: &AstType<Symbol>, o: &mut SpanOut) {
    // types are exported as opaque inner nodes (their own structure is not part of C08)
    o.open(t.span(), "-");
    o.close();
}

fn span_sident(a: &SpannedIdent<Symbol>, o: &mut SpanOut) {
    o.ident(a.span, &a.value.name);
}

pub fn span_pat(p: &SpannedPattern<Symbol>, o: &mut SpanOut) {
    match &p.value {
        Pattern::Ident(id) => o.ident(p.span, &id.name),
        Pattern::Constructor(_, args) => {
            o.open(p.span, "-");
            for a in args.iter() {
                span_pat(a, o);
            }
            o.close();
        }
        Pattern::As(id, q) => {
            o.open(p.span, "-");
            o.ident(id.span, &id.value);
            span_pat(q, o);
            o.close();
        }
        Pattern::Tuple { elems, .. } => {
            o.open(p.span, "-");
            for a in elems.iter() {
                span_pat(a, o);
            }
            o.close();
        }
        Pattern::Record { fields, implicit_import, .. } => {
            o.open(p.span, "-");
            for f in fields.iter() {
                match f {
                    PatternField::Type { name } => o.ident(name.span, &name.value),
                    PatternField::Value { name, value } => {
                        o.ident(name.span, &name.value);
                        if let Some(v) = value {
                            span_pat(v, o);
                        }
                    }
                }
            }
            if let Some(i) = implicit_import {
                o.open(i.span, "-");
                o.close();
            }
            o.close();
        }
        Pattern::Literal(l) => {
            o.open(p.span, &lit_leaf(l));
            o.close();
        }
        Pattern::Error => {
            o.open(p.span, "-");
            o.close();
        }
    }
}

fn span_binding(b: &ValueBinding<Symbol>, o: &mut SpanOut) {
    span_pat(&b.name, o);
    for a in b.args.iter() {
        let a: &Argument<SpannedIdent<Symbol>> = a;
        span_sident(&a.name, o);
    }
    if let Some(t) = &b.typ {
        span_type(t, o);
    }
    span_expr(&b.expr, o);
}

pub fn span_expr(e: &SpannedExpr<Symbol>, o: &mut SpanOut) {
    match &e.value {
        Expr::Ident(id) => o.ident(e.span, &id.name),
        Expr::Literal(l) => {
            o.open(e.span, &lit_leaf(l));
            o.close();
        }
        Expr::App { func, implicit_args, args } => {
            o.open(e.span, "-");
            span_expr(func, o);
            for a in implicit_args.iter() {
                span_expr(a, o);
            }
            for a in args.iter() {
                span_expr(a, o);
            }
            o.close();
        }
        Expr::Lambda(l) => {
            o.open(e.span, "-");
            for a in l.args.iter() {
                span_sident(&a.name, o);
            }
            span_expr(l.body, o);
            o.close();
        }
        Expr::IfElse(c, t, f) => {
            o.open(e.span, "-");
            span_expr(c, o);
            span_expr(t, o);
            span_expr(f, o);
            o.close();
        }
        Expr::Match(s, alts) => {
            o.open(e.span, "-");
            span_expr(s, o);
            for a in alts.iter() {
                let a: &Alternative<Symbol> = a;
                span_pat(&a.pattern, o);
                span_expr(&a.expr, o);
            }
            o.close();
        }
        Expr::Infix { lhs, op, rhs, implicit_args } => {
            o.open(e.span, "-");
            span_expr(lhs, o);
            span_sident(op, o);
            span_expr(rhs, o);
            let _ = implicit_args;
            o.close();
        }
        Expr::Projection(b, _, _) => {
            o.open(e.span, "-");
            span_expr(b, o);
            o.close();
        }
        Expr::Array(a) => {
            o.open(e.span, "-");
            for x in a.exprs.iter() {
                span_expr(x, o);
            }
            o.close();
        }
        Expr::Record { types, exprs, base, .. } => {
            o.open(e.span, "-");
            // type fields and value fields are kept in two arrays; merge them back into source order
            enum F<'a, 'ast> {
                T(&'a ExprField<'ast, Symbol, gluon_base::types::ArcType>),
                V(&'a ExprField<'ast, Symbol, SpannedExpr<'ast, Symbol>>),
            }
            let mut fs: Vec<(BytePos, F)> = vec![];
            for t in types.iter() {
                fs.push((t.name.span.start(), F::T(t)));
            }
            for v in exprs.iter() {
                fs.push((v.name.span.start(), F::V(v)));
            }
            fs.sort_by_key(|x| x.0);
            for (_, f) in fs {
                match f {
                    F::T(t) => o.ident(t.name.span, &t.name.value),
                    F::V(v) => {
                        o.ident(v.name.span, &v.name.value);
                        if let Some(x) = &v.value {
                            span_expr(x, o);
                        }
                    }
                }
            }
            if let Some(b) = base {
                span_expr(b, o);
            }
            o.close();
        }
        Expr::Tuple { elems, .. } => {
            o.open(e.span, "-");
            for x in elems.iter() {
                span_expr(x, o);
            }
            o.close();
        }
        Expr::LetBindings(bs, body) => {
            o.open(e.span, "-");
            match bs {
                ValueBindings::Plain(b) => span_binding(b, o),
                ValueBindings::Recursive(bs) => {
                    for b in bs.iter() {
                        span_binding(b, o);
                    }
                }
            }
            span_expr(body, o);
            o.close();
        }
        Expr::TypeBindings(bs, body) => {
            o.open(e.span, "-");
            for b in bs.iter() {
                o.ident(b.name.span, &b.name.value);
                o.open(b.alias.span, "-");
                o.close();
            }
            span_expr(body, o);
            o.close();
        }
        Expr::Block(es) => {
            o.open(e.span, "-");
            for x in es.iter() {
                span_expr(x, o);
            }
            o.close();
        }
        Expr::Do(d) => {
            o.open(e.span, "-");
            if let Some(p) = &d.id {
                span_pat(p, o);
            }
            if let Some(t) = &d.typ {
                span_type(t, o);
            }
            span_expr(d.bound, o);
            span_expr(d.body, o);
            o.close();
        }
        Expr::MacroExpansion { original, .. } => span_expr(original, o),
        Expr::Annotated(x, _) => span_expr(x, o),
        Expr::Error(_) => {
            o.open(e.span, "-");
            o.close();
        }
    }
}

// ---------------------------------------------------------------------------------------------
// token streams (hooks `gluon_parser::verif::{tokens, layout_tokens}`)

/// kind numbers shared with coq/theories/Front/LayoutCheck.v
pub fn kind_of(debug: &str) -> u64 {
    match debug {
        "OpenBlock" => 1,
        "CloseBlock" => 2,
        "Semi" => 3,
        "In" => 4,
        "LParen" => 5,
        "RParen" => 6,
        "LBrace" => 7,
        "RBrace" => 8,
        "LBracket" => 9,
        "RBracket" => 10,
        "AttributeOpen" => 11,
        "EOF" => 12,
        // every other token: a number that identifies the token including its payload
        _ => 100 + (gvh::out::fnv(debug.as_bytes()) % 1_000_000_007),
    }
}

pub struct Toks {
    /// (kind, start, end) 0-based
    pub toks: Vec<(u64, u32, u32)>,
    pub debug: Vec<String>,
    /// the stream ended with an error entry (tokenizer error / layout error)
    pub error: Option<String>,
}

fn conv(entries: Vec<gluon_parser::verif::Entry>) -> Toks {
    let mut t = Toks { toks: vec![], debug: vec![], error: None };
    for e in entries {
        match e {
            Ok((s, e, d)) => {
                // the parser's positions start at 1 for a `str` source
                t.toks.push((kind_of(&d), s.saturating_sub(1), e.saturating_sub(1)));
                t.debug.push(d);
            }
            Err((s, e, m)) => {
                t.error = Some(format!("{}..{}: {}", s, e, m));
                break;
            }
        }
    }
    t
}

pub fn raw_tokens(src: &str) -> (Toks, usize) {
    let (entries, errors) = gluon_parser::verif::tokens(src);
    (conv(entries), errors.len())
}

pub fn layout_tokens(src: &str) -> Toks {
    conv(gluon_parser::verif::layout_tokens(src))
}

pub fn toks_line(t: &Toks) -> String {
    let mut s = String::new();
    for (k, a, b) in &t.toks {
        s.push_str(&format!("{} {} {} ", k, a, b));
    }
    s.trim_end().to_string()
}

// ---------------------------------------------------------------------------------------------
// input / expected output of the layout MODEL (coq/theories/Front/Layout.v)

/// index of the constructor of `tk` in Layout.v
pub fn tk_of(debug: &str) -> u32 {
    let head: &str = debug.split(|c| c == '(' || c == ' ' || c == '{').next().unwrap_or("");
    match head {
        "EOF" => 0,
        "ShebangLine" => 1,
        "Comma" => 2,
        "In" => 3,
        "CloseBlock" => 4,
        "OpenBlock" => 5,
        "Semi" => 6,
        "Else" => 7,
        "RBrace" => 8,
        "RBracket" => 9,
        "RParen" => 10,
        "Pipe" => 11,
        "AttributeOpen" => 12,
        "DocComment" => 13,
        "Rec" => 14,
        "Type" => 15,
        "Let" => 16,
        "Do" => 17,
        "Seq" => 18,
        "If" => 19,
        "Match" => 20,
        "Lambda" => 21,
        "LBrace" => 22,
        "LBracket" => 23,
        "LParen" => 24,
        "Equals" => 25,
        "RArrow" => 26,
        "Then" => 27,
        "With" => 28,
        _ => 29,
    }
}

/// (line, column) of a byte offset as the tokenizer counts them (base/src/pos.rs Location::shift,
/// parser/src/token.rs CharLocations): lines from 0, columns in bytes from 1.
pub fn line_cols(src: &str) -> Vec<(u32, u32)> {
    let mut v = Vec::with_capacity(src.len() + 1);
    let (mut line, mut col) = (0u32, 1u32);
    for b in src.bytes() {
        v.push((line, col));
        if b == b'\n' {
            line += 1;
            col = 1;
        } else {
            col += 1;
        }
    }
    v.push((line, col));
    v
}

/// `M` line for the model driver and the expected reply; None when the tokenizer itself failed.
pub fn model_lines(src: &str) -> Option<(String, String)> {
    let (raw, _nerr) = raw_tokens(src);
    if raw.error.is_some() {
        return None;
    }
    let lc = line_cols(src);
    let mut m = String::from("M");
    for (i, (code, a, b)) in raw.toks.iter().enumerate() {
        let (l, c) = lc.get(*a as usize).copied().unwrap_or((0, 1));
        m.push_str(&format!(" {} {} {} {} {} {}", tk_of(&raw.debug[i]), code, l, c, a, b));
    }
    let lay = layout_tokens(src);
    let mut e = String::from(if lay.error.is_some() { "err" } else { "ok" });
    for (code, a, b) in &lay.toks {
        e.push_str(&format!(" {} {} {}", code, a, b));
    }
    Some((m, e))
}
