fn main() {
    let a: Vec<String> = std::env::args().collect();
    let s = &a[1];
    let mut tk = 0;
    let r = std::panic::catch_unwind(|| gluon_parser::verif::tokens(s));
    match r {
        Ok((toks, errs)) => {
            for t in toks.iter().take(40) {
                println!("{:?}", t);
                tk += 1;
            }
            println!("n={} shown={}", toks.len(), tk);
            for e in errs {
                println!("side {:?}", e);
            }
        }
        Err(_) => println!("PANIC"),
    }
}
