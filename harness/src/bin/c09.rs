//! C09 — the front end is total.
//!
//! Parent (`c09 --tier .. --seed .. --out DIR`):
//!   1. generates inputs (corpus, UTF-8 byte soups, token soups, grammar-aware mutants of real
//!      programs), at most 4 KiB each;
//!   2. tie C: runs the real tokenizer (`gluon_parser::verif::tokens`) on every input in a CHILD
//!      process (8 MiB stack, 10 s watchdog per input, the dying input is attributed exactly) and
//!      writes one canonical line per input to impl_out.txt, in the format of coq/extract/c09;
//!   3. totality monitor: every input through `parse_partial_expr` and `typecheck_str` (prelude off,
//!      and on for a subset) in a child under catch_unwind; every reported error must have a span
//!      inside its file on character boundaries and `emit_string()` must succeed;
//!   4. nesting sweep: parenthesis / let / lambda / record / ... nesting in a child.
//! Child (`c09 child <lex|mon> FILE`, `c09 child nest KIND DEPTH`): see `child_main`.
//!
//! Files in --out: model_in.txt impl_out.txt cases.txt stats.json monitor.json
use gluon::ThreadExt;
use gluon::base::error::InFile;
use gluon::base::pos::{BytePos, Spanned};
use gvh::out::{Args, Hist, fnv};
use gvh::rng::Rng;
use std::collections::{BTreeMap, BTreeSet};
use std::io::{BufRead, Write};
use std::panic::{AssertUnwindSafe, catch_unwind};
use std::sync::Mutex;
use std::time::{Duration, Instant};

const MAX_LEN: usize = 4096;
const STACK: usize = 8 * 1024 * 1024;
const WATCHDOG: Duration = Duration::from_secs(10);

// ------------------------------------------------------------------------------------------
// canonical rendering of the implementation's tokens (format of coq/extract/c09/driver.ml)
// ------------------------------------------------------------------------------------------

fn hex(b: &[u8]) -> String {
    let mut s = String::with_capacity(b.len() * 2);
    for x in b {
        s.push_str(&format!("{:02x}", x));
    }
    s
}

fn unhex(s: &str) -> Vec<u8> {
    (0..s.len() / 2).map(|i| u8::from_str_radix(&s[2 * i..2 * i + 2], 16).unwrap()).collect()
}

/// Reads one (possibly escaped) character of a Rust `{:?}` rendering; returns it and the rest.
fn debug_char(s: &str) -> Option<(char, &str)> {
    let mut it = s.chars();
    let c = it.next()?;
    if c != '\\' {
        return Some((c, it.as_str()));
    }
    let e = it.next()?;
    let rest = it.as_str();
    Some(match e {
        'n' => ('\n', rest),
        'r' => ('\r', rest),
        't' => ('\t', rest),
        '0' => ('\0', rest),
        '\\' => ('\\', rest),
        '\'' => ('\'', rest),
        '"' => ('"', rest),
        'u' => {
            let close = rest.find('}')?;
            let cp = u32::from_str_radix(&rest[1..close], 16).ok()?;
            (char::from_u32(cp)?, &rest[close + 1..])
        }
        _ => return None,
    })
}

/// `"...."` (Debug of a str) -> the string
fn debug_str(s: &str) -> Option<String> {
    let s = s.strip_prefix('"')?.strip_suffix('"')?;
    let mut out = String::new();
    let mut rest = s;
    while !rest.is_empty() {
        let (c, r) = debug_char(rest)?;
        out.push(c);
        rest = r;
    }
    Some(out)
}

/// `'x'` (Debug of a char) -> code point
fn debug_chr(s: &str) -> Option<u32> {
    let s = s.strip_prefix('\'')?.strip_suffix('\'')?;
    let (c, rest) = debug_char(s)?;
    if rest.is_empty() { Some(c as u32) } else { None }
}

fn inner<'a>(s: &'a str, prefix: &str, suffix: &str) -> Option<&'a str> {
    s.strip_prefix(prefix)?.strip_suffix(suffix)
}

fn canon_token(d: &str) -> String {
    let text = |tag: &str, body: Option<&str>| -> String {
        match body.and_then(debug_str) {
            Some(t) => format!("{}:{}", tag, hex(t.as_bytes())),
            None => format!("?{}", d),
        }
    };
    if d.starts_with("Identifier(") {
        text("Ident", inner(d, "Identifier(", ")"))
    } else if d.starts_with("Operator(") {
        text("Op", inner(d, "Operator(", ")"))
    } else if d.starts_with("ShebangLine(") {
        text("Shebang", inner(d, "ShebangLine(", ")"))
    } else if d.starts_with("StringLiteral(Escaped(") {
        text("Str", inner(d, "StringLiteral(Escaped(", "))"))
    } else if d.starts_with("StringLiteral(Raw(") {
        text("RawStr", inner(d, "StringLiteral(Raw(", "))"))
    } else if d.starts_with("CharLiteral(") {
        match inner(d, "CharLiteral(", ")").and_then(debug_chr) {
            Some(c) => format!("Char:{}", c),
            None => format!("?{}", d),
        }
    } else if d.starts_with("IntLiteral(") {
        format!("Int:{}", inner(d, "IntLiteral(", ")").unwrap_or("?"))
    } else if d.starts_with("ByteLiteral(") {
        format!("Byte:{}", inner(d, "ByteLiteral(", ")").unwrap_or("?"))
    } else if d.starts_with("FloatLiteral(") {
        "Float".to_string()
    } else if d.starts_with("DocComment(") {
        let block = d.contains("typ: Block");
        let body = d.find("content: ").map(|i| &d[i + 9..]).and_then(|r| r.strip_suffix(" })"));
        text(if block { "DocB" } else { "DocL" }, body)
    } else {
        d.to_string()
    }
}

fn canon_error(d: &str) -> String {
    for tag in ["UnexpectedChar", "UnexpectedEscapeCode"] {
        if let Some(body) = d.strip_prefix(tag).and_then(|r| r.strip_prefix('(')).and_then(|r| r.strip_suffix(')')) {
            return match debug_chr(body) {
                Some(c) => format!("{}:{}", tag, c),
                None => format!("?{}", d),
            };
        }
    }
    d.to_string()
}

/// `StringLiteral::unescape` as the grammar applies it to an escaped string token: the token's own
/// source text is parsed as an expression and the resulting string literal read back.
fn unescape_via_parser(token_src: &str) -> String {
    use gluon::base::ast::{Expr, Literal};
    let r = catch_unwind(AssertUnwindSafe(|| {
        let mut symbols = gluon::base::symbol::Symbols::new();
        let mut module = gluon::base::symbol::SymbolModule::new("c09u".into(), &mut symbols);
        let tc = gluon::base::types::TypeCache::default();
        let expr = match gluon_parser::parse_partial_root_expr(&mut module, &tc, token_src) {
            Ok(e) => Some(e),
            Err((e, _)) => e,
        };
        match expr {
            Some(e) => match &e.expr().value {
                Expr::Literal(Literal::String(s)) => format!("ok:{}", hex(s.as_bytes())),
                _ => "not-a-string-literal".to_string(),
            },
            None => "no-expr".to_string(),
        }
    }));
    match r {
        Ok(s) => s,
        Err(_) => {
            let (loc, msg) = take_panic();
            if msg.contains("Invalid escape") {
                "panic:invalid_escape".into()
            } else if msg.contains("index out of bounds") && loc.contains("token.rs") {
                "panic:index".into()
            } else {
                format!("panic:other:{}", loc)
            }
        }
    }
}

fn lex_impl_line(src: &str) -> String {
    let (items, side) = gluon_parser::verif::tokens(src);
    let mut out = String::from("ok");
    let mut strings = Vec::new();
    for it in items {
        match it {
            Ok((a, b, d)) => {
                if d.starts_with("StringLiteral(Escaped(") {
                    strings.push((a as usize - 1, b as usize - 1));
                }
                out.push_str(&format!(" T:{}:{}:{}", a - 1, b - 1, canon_token(&d)))
            }
            Err((a, b, d)) => out.push_str(&format!(" E:{}:{}:{}", a - 1, b - 1, canon_error(&d))),
        }
    }
    out.push_str(" ##");
    for (a, b, d) in side {
        out.push_str(&format!(" E:{}:{}:{}", a - 1, b - 1, canon_error(&d)));
    }
    out.push_str(" ##");
    let mut seen = BTreeMap::new();
    for (a, b) in strings {
        let text = &src[a..b];
        let r = seen.entry(text).or_insert_with(|| unescape_via_parser(text)).clone();
        out.push_str(&format!(" U:{}:{}", a, r));
    }
    out
}

// ------------------------------------------------------------------------------------------
// panic capture
// ------------------------------------------------------------------------------------------

static LAST_PANIC: Mutex<Option<(String, String)>> = Mutex::new(None);

fn install_hook() {
    std::panic::set_hook(Box::new(|info| {
        let loc = info
            .location()
            .map(|l| {
                let repo = std::env::var("GLUON_REPO").unwrap_or_else(|_| "/repo".into());
                let f = l.file();
                let f = f.strip_prefix(repo.as_str()).unwrap_or(f).trim_start_matches("/repo/").trim_start_matches('/');
                // scratch checkouts used for seeded-change runs
                let f = match f.find("/parser/src/").or_else(|| f.find("/base/src/")).or_else(|| f.find("/check/src/")).or_else(|| f.find("/vm/src/")) {
                    Some(i) if f.starts_with("tmp/") => &f[i + 1..],
                    _ => f,
                };
                format!("{}:{}", f, l.line())
            })
            .unwrap_or_else(|| "?".into());
        let msg = if let Some(s) = info.payload().downcast_ref::<&str>() {
            s.to_string()
        } else if let Some(s) = info.payload().downcast_ref::<String>() {
            s.clone()
        } else {
            "?".into()
        };
        if let Ok(mut g) = LAST_PANIC.lock() {
            // keep the FIRST panic (later ones are usually poisoned locks)
            if g.is_none() {
                *g = Some((loc, msg));
            }
        }
    }));
}

fn take_panic() -> (String, String) {
    LAST_PANIC.lock().ok().and_then(|mut g| g.take()).unwrap_or_else(|| ("?".into(), "?".into()))
}

fn one_line(s: &str, max: usize) -> String {
    let t: String = s.chars().map(|c| if c == '\n' || c == '\r' || c == '\t' { ' ' } else { c }).take(max).collect();
    t
}

/// Panic site class in the vocabulary of the model (`Panic PRestoreChar | PSlice`).
fn lexer_panic_site(loc: &str, msg: &str) -> String {
    if loc.contains("str_suffix.rs") && msg.starts_with("UTF-8 string") {
        "restore_char".into()
    } else if msg.contains("is not a char boundary") || msg.contains("when slicing") || msg.contains("out of bounds of") || msg.contains("out of range") {
        "slice".into()
    } else {
        format!("other:{}", loc)
    }
}

// ------------------------------------------------------------------------------------------
// monitor: parse_partial_expr / typecheck_str, spans and rendering of every reported error
// ------------------------------------------------------------------------------------------

fn check_infile<E: std::fmt::Display>(stage: &str, inf: &InFile<E>, out: &mut Vec<String>, nerr: &mut usize) {
    let errors: &gluon::base::error::Errors<Spanned<E, BytePos>> = inf.errors();
    let stage_key = stage.split('+').next().unwrap_or(stage);
    for e in errors.iter() {
        *nerr += 1;
        let (s, t) = (e.span.start(), e.span.end());
        match inf.source().get(s) {
            None => out.push(format!("error-span-outside-any-file:{}|{} span {}..{}", stage_key, stage, s.to_usize(), t.to_usize())),
            Some(file) => {
                let base = file.span().start().to_usize();
                let src = file.source();
                let (a, b) = (s.to_usize().wrapping_sub(base), t.to_usize().wrapping_sub(base));
                if a > b || b > src.len() {
                    out.push(format!("error-span-out-of-bounds:{}|{} file {} span {}..{} len {}: {}", stage_key, stage, file.name(), a, b, src.len(), one_line(&e.value.to_string(), 80)));
                } else if !src.is_char_boundary(a) || !src.is_char_boundary(b) {
                    out.push(format!("error-span-not-on-char-boundary:{}|{} file {} span {}..{}: {}", stage_key, stage, file.name(), a, b, one_line(&e.value.to_string(), 80)));
                }
            }
        }
    }
}

fn walk_error(stage: &str, e: &gluon::Error, out: &mut Vec<String>, nerr: &mut usize) {
    match e {
        gluon::Error::Parse(inf) => check_infile(stage, inf, out, nerr),
        gluon::Error::Typecheck(inf) => check_infile(stage, inf, out, nerr),
        gluon::Error::Macro(inf) => check_infile(stage, inf, out, nerr),
        gluon::Error::Multiple(es) => {
            for e in es.iter() {
                walk_error(stage, e, out, nerr)
            }
        }
        _ => *nerr += 1,
    }
}

fn new_vm(prelude: bool) -> gluon::RootedThread {
    let vm = gluon::VmBuilder::new().build();
    vm.get_database_mut().implicit_prelude(prelude);
    vm
}

/// Tells the parent which stage is about to run, so that a death of the process is attributed.
fn stage_marker(stage: &str) {
    let out = std::io::stdout();
    let mut o = out.lock();
    let _ = writeln!(o, "@{}", stage);
    let _ = o.flush();
}

struct Monitor {
    vm: gluon::RootedThread,
    vm_prelude: Option<gluon::RootedThread>,
    uses: usize,
}

impl Monitor {
    fn new() -> Monitor {
        Monitor { vm: new_vm(false), vm_prelude: None, uses: 0 }
    }

    /// Returns "outcome-summary" and the list of violations ("key|detail").
    fn run(&mut self, src: &str, with_prelude: bool) -> (String, Vec<String>) {
        let mut viol = Vec::new();
        let mut summary = String::new();
        self.uses += 1;
        if self.uses % 1500 == 0 {
            self.vm = new_vm(false);
            self.vm_prelude = None;
        }
        // --- parse_partial_expr
        stage_marker("parse");
        let mut nerr = 0usize;
        let vm = self.vm.clone();
        let r = catch_unwind(AssertUnwindSafe(|| {
            let tc = vm.global_env().type_cache().clone();
            let mut v = Vec::new();
            let mut n = 0usize;
            let res = match vm.parse_partial_expr(&tc, "c09p", src) {
                Ok(_) => "ok",
                Err(salvage) => {
                    check_infile("parse", &salvage.error, &mut v, &mut n);
                    let rendered = salvage.error.emit_string();
                    if let Err(e) = rendered {
                        v.push(format!("emit-string-failed|parse: {}", one_line(&e.to_string(), 200)));
                    }
                    "err"
                }
            };
            (res, v, n)
        }));
        match r {
            Ok((res, v, n)) => {
                viol.extend(v);
                nerr += n;
                summary.push_str(&format!("parse:{}", res));
            }
            Err(_) => {
                let (loc, msg) = take_panic();
                viol.push(format!("parse-panic:{}|{}", loc, one_line(&msg, 200)));
                summary.push_str("parse:panic");
                self.vm = new_vm(false);
            }
        }
        // --- typecheck_str, prelude off / on
        let mut modes = vec![false];
        if with_prelude {
            modes.push(true);
        }
        for prelude in modes {
            let vm = if prelude {
                if self.vm_prelude.is_none() {
                    self.vm_prelude = Some(new_vm(true));
                }
                self.vm_prelude.clone().unwrap()
            } else {
                self.vm.clone()
            };
            let stage = if prelude { "typecheck+prelude" } else { "typecheck" };
            stage_marker(stage);
            let r = catch_unwind(AssertUnwindSafe(|| {
                let mut v = Vec::new();
                let mut n = 0usize;
                let res = match vm.typecheck_str("c09t", src, None) {
                    Ok(_) => "ok",
                    Err(e) => {
                        walk_error(stage, &e, &mut v, &mut n);
                        match catch_unwind(AssertUnwindSafe(|| e.emit_string())) {
                            Ok(Ok(_)) => {}
                            Ok(Err(err)) => v.push(format!("emit-string-failed|{}: {}", stage, one_line(&err.to_string(), 200))),
                            Err(_) => {
                                let (loc, msg) = take_panic();
                                v.push(format!("emit-string-panic:{}|{}: {}", loc, stage, one_line(&msg, 200)));
                            }
                        }
                        "err"
                    }
                };
                (res, v, n)
            }));
            match r {
                Ok((res, v, n)) => {
                    viol.extend(v);
                    nerr += n;
                    summary.push_str(&format!(" {}:{}", stage, res));
                }
                Err(_) => {
                    let (loc, msg) = take_panic();
                    viol.push(format!("typecheck-panic:{}|{}: {}", loc, stage, one_line(&msg, 200)));
                    summary.push_str(&format!(" {}:panic", stage));
                    // locks may be poisoned: start over with fresh VMs
                    self.vm = new_vm(false);
                    self.vm_prelude = None;
                }
            }
        }
        summary.push_str(&format!(" errors:{}", nerr));
        (summary, viol)
    }
}

// ------------------------------------------------------------------------------------------
// child side
// ------------------------------------------------------------------------------------------

fn nest_source(kind: &str, d: usize) -> String {
    let mut s = String::new();
    match kind {
        "paren" => {
            s.push_str(&"(".repeat(d));
            s.push('1');
            s.push_str(&")".repeat(d));
        }
        "let-body" => {
            // let a = 1 in let a = a in ... a
            s.push_str("let a = 1\n");
            for _ in 1..d {
                s.push_str("let a = a\n");
            }
            s.push('a');
        }
        "let-value" => {
            for _ in 0..d {
                s.push_str("let a = ");
            }
            s.push('1');
            for _ in 0..d {
                s.push_str(" in a");
            }
        }
        "lambda" => {
            for _ in 0..d {
                s.push_str("\\x -> ");
            }
            s.push('x');
        }
        "record" => {
            for _ in 0..d {
                s.push_str("{ a = ");
            }
            s.push('1');
            s.push_str(&" }".repeat(d));
        }
        "array" => {
            s.push_str(&"[".repeat(d));
            s.push_str(&"]".repeat(d));
        }
        "if" => {
            s.push_str("let b = 1 #Int== 1\n");
            for _ in 0..d {
                s.push_str("if b then ");
            }
            s.push('1');
            for _ in 0..d {
                s.push_str(" else 0");
            }
        }
        "app" => {
            // f (f (f ... 1))
            s.push_str("let f x = x\n");
            for _ in 0..d {
                s.push_str("f (");
            }
            s.push('1');
            s.push_str(&")".repeat(d));
        }
        "infix" => {
            s.push('1');
            for _ in 0..d {
                s.push_str(" #Int+ 1");
            }
        }
        "type" => {
            // let x : (((Int))) = 1 in x
            s.push_str("let x : ");
            s.push_str(&"(".repeat(d));
            s.push_str("Int");
            s.push_str(&")".repeat(d));
            s.push_str(" = 1\nx");
        }
        "block-comment" => {
            s.push_str(&"/* ".repeat(d));
            s.push_str(&"*/ ".repeat(d));
            s.push('1');
        }
        _ => panic!("unknown nest kind {}", kind),
    }
    s
}

const NEST_KINDS: &[&str] = &["paren", "let-body", "let-value", "lambda", "record", "array", "if", "app", "infix", "type", "block-comment"];

fn child_main(args: &[String]) {
    install_hook();
    let mode = args[0].clone();
    let rest: Vec<String> = args[1..].to_vec();
    let h = std::thread::Builder::new()
        .stack_size(STACK)
        .spawn(move || match mode.as_str() {
            "lex" => child_lex(&rest[0]),
            "mon" => child_mon(&rest[0]),
            "nest" => child_nest(&rest[0], &rest[1]),
            _ => panic!("unknown child mode"),
        })
        .unwrap();
    let ok = h.join().is_ok();
    std::process::exit(if ok { 0 } else { 3 });
}

fn read_cases(path: &str) -> Vec<(usize, bool, String)> {
    // lines: <index> <flags> <hex>
    let f = std::io::BufReader::new(std::fs::File::open(path).expect("case file"));
    f.lines()
        .map(|l| {
            let l = l.unwrap();
            let mut it = l.split(' ');
            let i: usize = it.next().unwrap().parse().unwrap();
            let fl = it.next().unwrap() == "1";
            let h = it.next().unwrap_or("");
            (i, fl, String::from_utf8(unhex(h)).expect("utf8 case"))
        })
        .collect()
}

fn child_lex(path: &str) {
    let out = std::io::stdout();
    for (i, _, src) in read_cases(path) {
        let line = match catch_unwind(AssertUnwindSafe(|| lex_impl_line(&src))) {
            Ok(l) => l,
            Err(_) => {
                let (loc, msg) = take_panic();
                format!("panic:{}", lexer_panic_site(&loc, &msg))
            }
        };
        let mut o = out.lock();
        writeln!(o, "{}\t{}", i, line).unwrap();
        o.flush().unwrap();
    }
}

fn child_mon(path: &str) {
    let out = std::io::stdout();
    let mut m = Monitor::new();
    {
        let mut o = out.lock();
        writeln!(o, "ready").unwrap();
        o.flush().unwrap();
    }
    for (i, with_prelude, src) in read_cases(path) {
        let (summary, viol) = m.run(&src, with_prelude);
        let mut o = out.lock();
        writeln!(o, "{}\t{}\t{}", i, summary, viol.join("\x1f")).unwrap();
        o.flush().unwrap();
    }
}

fn child_nest(kind: &str, depths: &str) {
    let vm = new_vm(false);
    for d in depths.split(',') {
        let depth: usize = d.parse().unwrap();
        let src = nest_source(kind, depth);
        println!("@{}", depth);
        let r = catch_unwind(AssertUnwindSafe(|| match vm.typecheck_str("nest", &src, None) {
            Ok(_) => "ok".to_string(),
            Err(e) => {
                let _ = e.emit_string();
                format!("rejected {}", one_line(&e.to_string(), 100))
            }
        }));
        match r {
            Ok(s) => println!("D {} done {}", depth, s),
            Err(_) => {
                let (loc, msg) = take_panic();
                println!("D {} panic {} {}", depth, loc, one_line(&msg, 100));
                return;
            }
        }
    }
}

// ------------------------------------------------------------------------------------------
// parent side: isolated runner
// ------------------------------------------------------------------------------------------

fn describe_exit(st: std::process::ExitStatus) -> String {
    use std::os::unix::process::ExitStatusExt;
    match (st.code(), st.signal()) {
        (_, Some(sig)) => format!("abort:signal{}", sig),
        (Some(c), _) => format!("abort:exit{}", c),
        _ => "abort:?".into(),
    }
}

fn stderr_tail(path: &std::path::Path) -> String {
    let t = std::fs::read(path).unwrap_or_default();
    let t = String::from_utf8_lossy(&t).into_owned();
    let n = t.len().saturating_sub(2000);
    let mut k = n;
    while !t.is_char_boundary(k) {
        k += 1;
    }
    t[k..].to_string()
}

fn death_reason(st: std::process::ExitStatus, stderr: &std::path::Path) -> String {
    let tail = stderr_tail(stderr);
    if tail.contains("has overflowed its stack") {
        "stack-overflow".into()
    } else if tail.contains("panic in a function that cannot unwind") || tail.contains("non-unwinding panic") {
        "abort:non-unwinding-panic".into()
    } else {
        describe_exit(st)
    }
}

/// Runs `cases` (index, flag, text) through child mode `mode`; returns index -> result line (without the index).
/// A case on which the child dies or exceeds the watchdog gets `<reason>@<stage>` (reason = stack-overflow,
/// abort:.., hang) and the child is restarted on the remaining cases.
fn run_isolated(mode: &str, tag: &str, cases: &[(usize, bool, &str)], dir: &std::path::Path, deaths: &mut Vec<String>) -> BTreeMap<usize, String> {
    run_isolated_w(mode, tag, cases, dir, deaths, WATCHDOG)
}

fn run_isolated_w(mode: &str, tag: &str, cases: &[(usize, bool, &str)], dir: &std::path::Path, deaths: &mut Vec<String>, watchdog: Duration) -> BTreeMap<usize, String> {
    let mut results = BTreeMap::new();
    let mut from = 0usize;
    let mut round = 0;
    while from < cases.len() {
        round += 1;
        let path = dir.join(format!("{}-{}-in-{}.txt", mode, tag, round));
        let errpath = dir.join(format!("{}-{}-stderr.txt", mode, tag));
        {
            let mut f = std::io::BufWriter::new(std::fs::File::create(&path).unwrap());
            for (i, fl, s) in &cases[from..] {
                writeln!(f, "{} {} {}", i, if *fl { 1 } else { 0 }, hex(s.as_bytes())).unwrap();
            }
        }
        let mut child = std::process::Command::new(std::env::current_exe().unwrap())
            .arg("child")
            .arg(mode)
            .arg(&path)
            .stdout(std::process::Stdio::piped())
            .stderr(std::fs::File::create(&errpath).map(std::process::Stdio::from).unwrap_or_else(|_| std::process::Stdio::null()))
            .spawn()
            .expect("spawn child");
        let stdout = child.stdout.take().unwrap();
        let (tx, rx) = std::sync::mpsc::channel::<String>();
        let reader = std::thread::spawn(move || {
            for l in std::io::BufReader::new(stdout).lines() {
                match l {
                    Ok(l) => {
                        if tx.send(l).is_err() {
                            break;
                        }
                    }
                    Err(_) => break,
                }
            }
        });
        let mut k = from;
        let mut first = true;
        let mut stage = String::from("start");
        let mut died: Option<String> = None;
        let mut deadline = Instant::now() + watchdog * 6; // the first answer of a child includes process and VM start-up
        while k < cases.len() {
            let now = Instant::now();
            let left = if deadline > now { deadline - now } else { Duration::from_millis(0) };
            match rx.recv_timeout(left) {
                Ok(l) => {
                    if l == "ready" {
                        first = false;
                        deadline = Instant::now() + watchdog;
                        continue;
                    }
                    if let Some(st) = l.strip_prefix('@') {
                        stage = st.to_string();
                        continue;
                    }
                    let (idx, body) = l.split_once('\t').unwrap_or(("?", ""));
                    if idx.parse::<usize>().ok() == Some(cases[k].0) {
                        results.insert(cases[k].0, body.to_string());
                        k += 1;
                        stage = "start".into();
                        first = false;
                        deadline = Instant::now() + watchdog;
                    }
                }
                Err(std::sync::mpsc::RecvTimeoutError::Timeout) => {
                    let _ = child.kill();
                    let _ = child.wait();
                    died = Some(if first { "hang-at-startup".into() } else { "hang".into() });
                    break;
                }
                Err(std::sync::mpsc::RecvTimeoutError::Disconnected) => {
                    let st = child.wait().expect("wait");
                    died = Some(death_reason(st, &errpath));
                    break;
                }
            }
        }
        if k >= cases.len() {
            let _ = child.wait();
        }
        let _ = reader.join();
        let _ = std::fs::remove_file(&path);
        if let Some(why) = died {
            if k < cases.len() {
                // a watchdog expiry may be machine load: run the case alone with three times the limit
                if why.starts_with("hang") && watchdog == WATCHDOG {
                    let mut d2 = Vec::new();
                    let one = [cases[k]];
                    let r = run_isolated_w(mode, &format!("{}r", tag), &one, dir, &mut d2, WATCHDOG * 3);
                    if let Some(res) = r.get(&cases[k].0) {
                        if !res.starts_with("hang") {
                            deaths.push(format!("{} case {} slow (exceeded the {} s watchdog once, finished alone)", mode, cases[k].0, WATCHDOG.as_secs()));
                            if res.contains('@') && !res.contains('\t') {
                                deaths.push(format!("{} case {} {}", mode, cases[k].0, res));
                            }
                            results.insert(cases[k].0, res.clone());
                            k += 1;
                            let _ = std::fs::remove_file(&errpath);
                            from = k;
                            continue;
                        }
                    }
                }
                let why = format!("{}@{}", why, stage);
                deaths.push(format!("{} case {} {}", mode, cases[k].0, why));
                results.insert(cases[k].0, why);
                k += 1;
            }
        }
        let _ = std::fs::remove_file(&errpath);
        from = k;
    }
    results
}

/// Sharded version: `shards` children in parallel.
fn run_isolated_par(mode: &str, cases: &[(usize, bool, &str)], dir: &std::path::Path, deaths: &mut Vec<String>, shards: usize) -> BTreeMap<usize, String> {
    let n = cases.len();
    let per = (n + shards - 1) / shards.max(1);
    let mut all = BTreeMap::new();
    if n == 0 {
        return all;
    }
    std::thread::scope(|sc| {
        let mut hs = Vec::new();
        for (k, chunk) in cases.chunks(per.max(1)).enumerate() {
            let tag = format!("s{}", k);
            hs.push(sc.spawn(move || {
                let mut d = Vec::new();
                let r = run_isolated(mode, &tag, chunk, dir, &mut d);
                (r, d)
            }));
        }
        for h in hs {
            let (r, d) = h.join().expect("shard");
            all.extend(r);
            deaths.extend(d);
        }
    });
    all
}

/// Nesting sweep of one kind in one child: depth -> result ("done ok", "done rejected ..", "panic ..",
/// "stack-overflow", "abort:..", "hang").  Stops at the first depth that kills the child.
fn run_nest(kind: &str, depths: &[usize], dir: &std::path::Path) -> Vec<(usize, String)> {
    let errpath = dir.join(format!("nest-{}-stderr.txt", kind));
    let list: Vec<String> = depths.iter().map(|d| d.to_string()).collect();
    let mut child = std::process::Command::new(std::env::current_exe().unwrap())
        .args(["child", "nest", kind, &list.join(",")])
        .stdout(std::process::Stdio::piped())
        .stderr(std::fs::File::create(&errpath).map(std::process::Stdio::from).unwrap_or_else(|_| std::process::Stdio::null()))
        .spawn()
        .expect("spawn child");
    let stdout = child.stdout.take().unwrap();
    let (tx, rx) = std::sync::mpsc::channel::<String>();
    let reader = std::thread::spawn(move || {
        for l in std::io::BufReader::new(stdout).lines().map_while(|l| l.ok()) {
            if tx.send(l).is_err() {
                break;
            }
        }
    });
    let mut out = Vec::new();
    let mut current: Option<usize> = None;
    loop {
        match rx.recv_timeout(WATCHDOG * 3) {
            Ok(l) => {
                if let Some(d) = l.strip_prefix('@') {
                    current = d.parse().ok();
                } else if let Some(r) = l.strip_prefix("D ") {
                    let (d, res) = r.split_once(' ').unwrap_or(("0", ""));
                    out.push((d.parse().unwrap_or(0), res.to_string()));
                    current = None;
                }
            }
            Err(std::sync::mpsc::RecvTimeoutError::Timeout) => {
                let _ = child.kill();
                let _ = child.wait();
                if let Some(d) = current {
                    out.push((d, "hang".into()));
                }
                break;
            }
            Err(std::sync::mpsc::RecvTimeoutError::Disconnected) => {
                let st = child.wait().expect("wait");
                if let Some(d) = current {
                    out.push((d, death_reason(st, &errpath)));
                }
                break;
            }
        }
    }
    let _ = reader.join();
    let _ = std::fs::remove_file(&errpath);
    out
}

// ------------------------------------------------------------------------------------------
// input generation
// ------------------------------------------------------------------------------------------

fn truncate_to(s: &str, max: usize) -> &str {
    if s.len() <= max {
        return s;
    }
    let mut e = max;
    while !s.is_char_boundary(e) {
        e -= 1;
    }
    &s[..e]
}

const INTERESTING_ASCII: &[u8] = b"\"\"''\\\\##rr//**!![[]](){}..,,--xxbb00119 \n\n\t\r@:=|?_a~<>+eF";
const NON_ASCII: &[char] = &[
    '\u{e9}', '\u{a0}', '\u{85}', '\u{80}', '\u{ff}', '\u{3bb}', '\u{20ac}', '\u{2713}', '\u{2028}', '\u{3000}', '\u{1680}', '\u{fffd}',
    '\u{1f600}', '\u{10ffff}', '\u{10000}', '\u{7ff}', '\u{800}', '\u{d7ff}', '\u{e000}', '\u{feff}', '\u{301}',
];

fn rand_char(rng: &mut Rng, ascii_only: bool) -> char {
    let k = rng.below(100);
    if ascii_only || k < 70 {
        if rng.chance(1, 2) {
            *rng.pick(INTERESTING_ASCII) as char
        } else {
            rng.below(128) as u8 as char
        }
    } else if k < 90 {
        *rng.pick(NON_ASCII)
    } else {
        loop {
            let cp = match rng.below(3) {
                0 => 0x80 + rng.below(0x780),
                1 => 0x800 + rng.below(0xF800),
                _ => 0x10000 + rng.below(0x100000),
            } as u32;
            if let Some(c) = char::from_u32(cp) {
                return c;
            }
        }
    }
}

/// Random bytes forced to valid UTF-8.
fn gen_bytes(rng: &mut Rng) -> (String, &'static str) {
    let len = match rng.below(10) {
        0..=3 => 1 + rng.below(12) as usize,
        4..=7 => 1 + rng.below(200) as usize,
        _ => 1 + rng.below(MAX_LEN as u64) as usize,
    };
    match rng.below(4) {
        0 => {
            // uniformly random bytes, lossily decoded (invalid sequences become U+FFFD)
            let b: Vec<u8> = (0..len).map(|_| rng.below(256) as u8).collect();
            let s = String::from_utf8_lossy(&b).into_owned();
            (truncate_to(&s, MAX_LEN).to_string(), "bytes:lossy")
        }
        1 => {
            let mut s = String::new();
            while s.len() < len {
                s.push(rand_char(rng, false));
            }
            (truncate_to(&s, MAX_LEN).to_string(), "bytes:chars")
        }
        _ => {
            let mut s = String::new();
            while s.len() < len {
                s.push(rand_char(rng, true));
            }
            (truncate_to(&s, MAX_LEN).to_string(), "bytes:ascii")
        }
    }
}

const SOUP: &[&str] = &[
    "let", "in", "if", "then", "else", "match", "with", "type", "rec", "do", "seq", "forall", "x", "y", "f", "foo'", "Bar", "_", "a_1", "import!", "std.int",
    "Some", "None", "True", "False", "Int", "String", "=", "->", "|", ":", ",", ".", "..", "@", "\\", "?", "(", ")", "{", "}", "[", "]", "#[", "#[derive(Eq)]", "#!",
    "+", "-", "*", "/", "==", "<|", "|>", ">>=", "<>", "&&", "||", "#Int+", "#Float*", "#Byte==", "#", "$", "-1", "0", "1", "42", "007", "9223372036854775807",
    "9223372036854775808", "-9223372036854775808", "-9223372036854775809", "0x", "0xff", "0xFFFFFFFFFFFFFFFF", "0x7fffffffffffffff", "-0x8000000000000000", "-0x8000000000000001",
    "-0x1", "1x2", "0xg", "12b", "255b", "256b", "-1b", "0b", "1.5", "1.", "2.5e3", "1.2.3", "3f", "1e5", "'a'", "'\\n'", "'\\''", "''", "'ab'", "'\\q'", "'", "'a",
    "\"\"", "\"abc\"", "\"a\\\"b\"", "\"a\\nb\"", "\"\\q\"", "\"unterminated", "\"\\", "r\"raw\"", "r#\"ra\"w\"#", "r##\"x\"#\"##", "r#\"unterminated\"", "r#x", "r##", "r",
    "// comment\n", "/// doc\n", "///doc2\n", "//// four\n", "//", "/* block */", "/** doc block */", "/**/", "/***/", "/*", "/* unterminated", "/** * **/", "*/",
    "\n", "\n\n", "\r\n", "\t", ";", "~", "^", "%", "&", "!", "<", ">", "\u{b}", "\u{c}",
];
const SOUP_NON_ASCII_SAFE: &[&str] = &["\"h\u{e9}llo\"", "// caf\u{e9}\n", "/* \u{2713} */", "/// \u{1f600} doc\n", "r\"\u{20ac}\"", "/** \u{3000}pad\u{3000} */", "\"\u{a0}\""];
const SOUP_NON_ASCII_BAD: &[&str] = &["\u{e9}", "\u{20ac}", "\u{2713}", "\u{a0}", "\u{85}", "'\u{e9}'", "'\u{1f600}'", "\"\\\u{e9}\"", "\"\\\u{1f600}\"", "'a\u{e9}", "\u{3bb}x", "x\u{301}", "\u{1f600}"];

/// Random token soup with random indentation; `bad` allows non-ASCII outside of strings/comments.
fn gen_soup(rng: &mut Rng, bad: bool) -> String {
    let big = rng.chance(1, 4);
    let n = 1 + rng.below(if big { 400 } else { 40 }) as usize;
    let mut s = String::new();
    if rng.chance(1, 20) {
        s.push_str("#!/usr/bin/gluon \n");
    }
    for _ in 0..n {
        let k = rng.below(100);
        let t: &str = if k < 6 {
            *rng.pick(SOUP_NON_ASCII_SAFE)
        } else if bad && k < 9 {
            *rng.pick(SOUP_NON_ASCII_BAD)
        } else {
            *rng.pick(SOUP)
        };
        if s.len() + t.len() + 16 > MAX_LEN {
            break;
        }
        s.push_str(t);
        match rng.below(10) {
            0 => {}
            1 | 2 => {
                s.push('\n');
                for _ in 0..rng.below(12) {
                    s.push(' ');
                }
            }
            3 => s.push_str("  "),
            _ => s.push(' '),
        }
    }
    s
}

/// Random small expression (well-formed syntax, mostly ill-typed): exercises renaming and the type
/// checker rather than the parser's error recovery.
fn gen_expr(rng: &mut Rng, depth: u32, vars: &mut Vec<String>, out: &mut String) {
    let leaf = depth == 0 || rng.chance(1, 4);
    if leaf {
        match rng.below(8) {
            0 | 1 => out.push_str(&rng.below(10).to_string()),
            2 => out.push_str("\"s\""),
            3 => out.push_str("1.5"),
            4 => out.push_str("[]"),
            5 => out.push_str("()"),
            _ => {
                if vars.is_empty() {
                    out.push('y')
                } else {
                    let v = rng.pick(vars).clone();
                    out.push_str(&v)
                }
            }
        }
        return;
    }
    let fresh = |rng: &mut Rng| format!("{}{}", ["x", "f", "n", "acc"][rng.below(4) as usize], rng.below(3));
    match rng.below(14) {
        0 | 1 => {
            let v = fresh(rng);
            out.push_str(&format!("(\\{} -> ", v));
            vars.push(v);
            gen_expr(rng, depth - 1, vars, out);
            vars.pop();
            out.push(')');
        }
        2 | 3 => {
            out.push('(');
            gen_expr(rng, depth - 1, vars, out);
            for _ in 0..1 + rng.below(2) {
                out.push(' ');
                gen_expr(rng, depth - 1, vars, out);
            }
            out.push(')');
        }
        4 => {
            out.push_str("(if ");
            gen_expr(rng, depth - 1, vars, out);
            out.push_str(" then ");
            gen_expr(rng, depth - 1, vars, out);
            out.push_str(" else ");
            gen_expr(rng, depth - 1, vars, out);
            out.push(')');
        }
        5 => {
            out.push('(');
            gen_expr(rng, depth - 1, vars, out);
            out.push_str(", ");
            gen_expr(rng, depth - 1, vars, out);
            out.push(')');
        }
        6 => {
            out.push_str("{ a = ");
            gen_expr(rng, depth - 1, vars, out);
            if rng.chance(1, 2) {
                out.push_str(", b = ");
                gen_expr(rng, depth - 1, vars, out);
            }
            out.push_str(" }");
        }
        7 => {
            out.push('[');
            gen_expr(rng, depth - 1, vars, out);
            out.push(']');
        }
        8 => {
            let v = fresh(rng);
            out.push_str(&format!("(let {} = ", v));
            gen_expr(rng, depth - 1, vars, out);
            out.push_str(" in ");
            vars.push(v);
            gen_expr(rng, depth - 1, vars, out);
            vars.pop();
            out.push(')');
        }
        9 | 10 => {
            let f = fresh(rng);
            let a = fresh(rng);
            out.push_str(&format!("(rec let {} = \\{} -> ", f, a));
            vars.push(f);
            vars.push(a);
            gen_expr(rng, depth - 1, vars, out);
            vars.pop();
            out.push_str(" in ");
            gen_expr(rng, depth - 1, vars, out);
            vars.pop();
            out.push(')');
        }
        11 => {
            gen_expr(rng, depth - 1, vars, out);
            out.push_str(if rng.chance(1, 2) { ".a" } else { ".b" });
        }
        12 => {
            out.push('(');
            gen_expr(rng, depth - 1, vars, out);
            out.push_str(*rng.pick(&[" #Int+ ", " #Int< ", " #Int== ", " #Float* "]));
            gen_expr(rng, depth - 1, vars, out);
            out.push(')');
        }
        _ => {
            let v = fresh(rng);
            out.push_str("(match ");
            gen_expr(rng, depth - 1, vars, out);
            out.push_str(&format!(" with | {} -> ", v));
            vars.push(v);
            gen_expr(rng, depth - 1, vars, out);
            vars.pop();
            out.push(')');
        }
    }
}

/// Multi-byte characters of every class that `char::is_whitespace` / `is_alphanumeric` /
/// `is_numeric` distinguish, used by the deterministic decision-point family.
const DECISION_CHARS: &[char] = &[
    '\u{a0}',    // NO-BREAK SPACE (2 bytes, whitespace)
    '\u{85}',    // NEXT LINE (2 bytes, whitespace, line terminator for str::lines)
    '\u{1680}',  // OGHAM SPACE MARK (3 bytes, whitespace)
    '\u{2003}',  // EM SPACE (3 bytes, whitespace)
    '\u{2028}',  // LINE SEPARATOR (3 bytes, whitespace)
    '\u{3000}',  // IDEOGRAPHIC SPACE (3 bytes, whitespace)
    '\u{200b}',  // ZERO WIDTH SPACE (3 bytes, NOT whitespace)
    '\u{feff}',  // BOM / ZERO WIDTH NO-BREAK SPACE (not whitespace)
    '\u{e9}',    // é  letter, 2 bytes
    '\u{3bb}',   // λ  letter, 2 bytes
    '\u{6f22}',  // 漢 letter, 3 bytes
    '\u{663}',   // ٣  decimal digit, 2 bytes
    '\u{b2}',    // ²  numeric but not a decimal digit
    '\u{20ac}',  // €  symbol, 3 bytes
    '\u{2713}',  // ✓  symbol, 3 bytes
    '\u{301}',   // combining acute accent
    '\u{1f600}', // emoji, 4 bytes
    '\u{10ffff}', // last code point, 4 bytes
];

/// (opening bytes, closing bytes) of every lexer construct; the character under test is placed
/// 0..=3 ASCII bytes after the opening.
const DECISION_CONSTRUCTS: &[(&str, &str)] = &[
    ("//", ""),
    ("///", ""),
    ("/// ", ""),
    ("////", ""),
    ("/*", "*/"),
    ("/**", "*/"),
    ("/** ", " */"),
    ("\"", "\""),
    ("\"\\", "\""),
    ("\"\\n", "\""),
    ("r\"", "\""),
    ("r#\"", "\"#"),
    ("r##\"", "\"##"),
    ("r#", ""),
    ("'", "'"),
    ("'\\", "'"),
    ("'a", "'"),
    ("1", ""),
    ("12b", ""),
    ("0x1F", ""),
    ("0x", ""),
    ("1.5", ""),
    ("1.", ""),
    ("-1", ""),
    ("x", ""),
    ("x1'", ""),
    ("x!", ""),
    ("import!", ""),
    ("+", ""),
    ("->", ""),
    ("#", ""),
    ("#Int", ""),
    ("#Int+", ""),
    ("#!", ""),
    ("#!/bin/gluon", ""),
    ("#[", "]"),
    ("#[derive(", ")]"),
    ("let x = ", ""),
    ("{ x = 1, ", " }"),
    ("", ""),
];

/// Deterministic cross product: construct x character x offset (0..=3 after the opening bytes) x
/// what follows (end of input, the closing bytes, text then closing, a new line with more code),
/// at the start of the input and after a first line.  Seed independent, part of every tier.
fn gen_decision_points() -> Vec<String> {
    let mut out = Vec::new();
    let filler = ["", "a", "ab", "a b"];
    for (open, close) in DECISION_CONSTRUCTS {
        for &c in DECISION_CHARS {
            for (k, fill) in filler.iter().enumerate() {
                let head = format!("{}{}{}", open, fill, c);
                // at the end of the input (right before EOF)
                out.push(head.clone());
                // directly before the construct's end
                out.push(format!("{}{}", head, close));
                // followed by text, then the end of the construct
                out.push(format!("{}The answer z{}", head, close));
                // followed by a new line with more code
                out.push(format!("{}{}\nlet x = 42\nx", head, close));
                if k == 0 {
                    // not at the start of the input (shebang rule, column handling), indented
                    out.push(format!("1\n{}", head));
                    out.push(format!("let y =\n    {}{}\n    42\ny", head, close));
                    // the character doubled, and right before the closing bytes after text
                    out.push(format!("{}{}{}", head, c, close));
                    out.push(format!("{}zz{}{}", open, c, close));
                }
            }
        }
    }
    out
}

struct Seed {
    name: String,
    text: String,
    /// token spans (byte offsets) from the real tokenizer
    toks: Vec<(usize, usize)>,
}

fn collect_seeds() -> Vec<Seed> {
    let repo = std::env::var("GLUON_REPO").unwrap_or_else(|_| "/repo".into());
    let mut files = Vec::new();
    for dir in ["std", "tests/pass", "examples", "std/effect", "std/json", "std/http", "std/io", "std/regex", "std/path"] {
        if let Ok(rd) = std::fs::read_dir(format!("{}/{}", repo, dir)) {
            for e in rd.flatten() {
                let p = e.path();
                if p.extension().map_or(false, |x| x == "glu") {
                    files.push(p);
                }
            }
        }
    }
    files.sort();
    let mut seeds = Vec::new();
    for p in files {
        let Ok(text) = std::fs::read_to_string(&p) else { continue };
        // windows of at most 4 KiB cut at line starts
        let mut start = 0;
        let mut w = 0;
        while start < text.len() && w < 3 {
            let mut end = (start + MAX_LEN - 64).min(text.len());
            while !text.is_char_boundary(end) {
                end -= 1;
            }
            if end < text.len() {
                if let Some(nl) = text[start..end].rfind('\n') {
                    end = start + nl + 1;
                }
            }
            let chunk = text[start..end].to_string();
            let toks = catch_unwind(AssertUnwindSafe(|| gluon_parser::verif::tokens(&chunk)))
                .map(|(items, _)| {
                    items
                        .into_iter()
                        .filter_map(|i| i.ok())
                        .map(|(a, b, _)| (a as usize - 1, b as usize - 1))
                        .filter(|(a, b)| a < b)
                        .collect::<Vec<_>>()
                })
                .unwrap_or_default();
            if toks.len() >= 4 {
                seeds.push(Seed { name: format!("{}#{}", p.strip_prefix(&repo).unwrap_or(&p).display(), w), text: chunk, toks });
            }
            start = end;
            w += 1;
        }
    }
    seeds
}

fn mutate(rng: &mut Rng, seed: &Seed) -> (String, &'static str) {
    let t = &seed.text;
    let toks = &seed.toks;
    let nt = toks.len();
    let mut s = t.clone();
    let mut kind = "mut:none";
    let rounds = 1 + rng.below(3);
    for _ in 0..rounds {
        // re-tokenising after each edit is not needed: edits are applied to the ORIGINAL spans of a
        // fresh copy only in the first round; later rounds work on lines.
        match rng.below(7) {
            0 if s.len() == t.len() => {
                let (a, b) = toks[rng.below(nt as u64) as usize];
                s = format!("{}{}", &t[..a], &t[b..]);
                kind = "mut:delete";
            }
            1 if s.len() == t.len() => {
                let (a, b) = toks[rng.below(nt as u64) as usize];
                s = format!("{}{} {}", &t[..b], &t[a..b], &t[b..]);
                kind = "mut:duplicate";
            }
            2 if s.len() == t.len() => {
                let i = rng.below(nt as u64 - 1) as usize;
                let j = (i + 1 + rng.below(3) as usize).min(nt - 1);
                let ((a, b), (c, d)) = (toks[i], toks[j]);
                if b <= c {
                    s = format!("{}{}{}{}{}", &t[..a], &t[c..d], &t[b..c], &t[a..b], &t[d..]);
                    kind = "mut:swap";
                }
            }
            3 if s.len() == t.len() => {
                let (_, b) = toks[rng.below(nt as u64) as usize];
                s = t[..b].to_string();
                kind = "mut:truncate";
            }
            4 if s.len() == t.len() => {
                // truncate in the middle of a token
                let (a, b) = toks[rng.below(nt as u64) as usize];
                let mut e = a + (rng.below((b - a) as u64) as usize);
                while !t.is_char_boundary(e) {
                    e -= 1;
                }
                s = t[..e].to_string();
                kind = "mut:truncate-mid";
            }
            5 => {
                // re-indent some lines
                let lines: Vec<&str> = s.split('\n').collect();
                let mut out = String::new();
                for (i, l) in lines.iter().enumerate() {
                    if i > 0 {
                        out.push('\n');
                    }
                    if rng.chance(1, 6) {
                        let body = l.trim_start();
                        for _ in 0..rng.below(10) {
                            out.push(' ');
                        }
                        out.push_str(body);
                    } else {
                        out.push_str(l);
                    }
                }
                s = out;
                if kind == "mut:none" {
                    kind = "mut:reindent";
                }
            }
            _ => {
                // insert a soup token at a token boundary
                let (_, b) = toks[rng.below(nt as u64) as usize];
                if b <= s.len() && s.is_char_boundary(b) {
                    let ins = *rng.pick(SOUP);
                    s = format!("{} {} {}", &s[..b], ins, &s[b..]);
                    if kind == "mut:none" {
                        kind = "mut:insert";
                    }
                }
            }
        }
    }
    (truncate_to(&s, MAX_LEN).to_string(), kind)
}

/// Which part of the lexer an input exercises: used for the histogram and for classifying panics.
fn non_ascii_class(s: &str) -> &'static str {
    if s.is_ascii() { "ascii" } else { "non-ascii" }
}

// ------------------------------------------------------------------------------------------
// shrinking of a panicking lexer input (in-process: lexer panics unwind)
// ------------------------------------------------------------------------------------------

fn lex_panics(s: &str) -> Option<String> {
    match catch_unwind(AssertUnwindSafe(|| gluon_parser::verif::tokens(s))) {
        Ok(_) => None,
        Err(_) => {
            let (loc, msg) = take_panic();
            Some(lexer_panic_site(&loc, &msg))
        }
    }
}

fn shrink_panic(s: &str, site: &str) -> String {
    let mut cur: Vec<char> = s.chars().collect();
    loop {
        let before = cur.len();
        let mut chunk = (cur.len() / 2).max(1);
        loop {
            let mut i = 0;
            while i < cur.len() {
                let end = (i + chunk).min(cur.len());
                let cand: String = cur[..i].iter().chain(cur[end..].iter()).collect();
                if lex_panics(&cand).as_deref() == Some(site) {
                    cur = cand.chars().collect();
                } else {
                    i = end;
                }
            }
            if chunk == 1 {
                break;
            }
            chunk = (chunk / 2).max(1);
        }
        // a full schedule without progress: done (small chunks can unblock larger ones, e.g. `""`)
        if cur.len() == before {
            break;
        }
    }
    // second pass with pairs/triples at the end
    for chunk in [2usize, 3, 4] {
        let mut i = 0;
        while i + chunk <= cur.len() {
            let cand: String = cur[..i].iter().chain(cur[i + chunk..].iter()).collect();
            if lex_panics(&cand).as_deref() == Some(site) {
                cur = cand.chars().collect();
            } else {
                i += 1;
            }
        }
    }
    cur.into_iter().collect()
}

/// Key of a lexer panic, from the minimal input.
fn panic_key(min: &str, site: &str) -> String {
    let has_non_ascii = !min.is_ascii();
    let class = if !has_non_ascii {
        format!("ascii:{}", hex(min.as_bytes()))
    } else if min.starts_with("///") {
        "non-ascii-after-doc-comment-marker".to_string()
    } else if min.starts_with('\'') {
        "non-ascii-in-char-literal".to_string()
    } else if min.starts_with('"') && min.contains('\\') {
        "non-ascii-escape-in-string".to_string()
    } else if min.chars().all(|c| !c.is_ascii() || c.is_ascii_whitespace()) {
        "non-ascii-outside-string".to_string()
    } else {
        format!("non-ascii:{}:{}", site, hex(truncate_to(min, 16).as_bytes()))
    };
    format!("lexer-panic:{}", class)
}

// ------------------------------------------------------------------------------------------

fn replay(path: &str) {
    install_hook();
    let v: serde_json::Value = serde_json::from_str(&std::fs::read_to_string(path).expect("replay file")).expect("json");
    let case = &v["case"];
    let dir = std::env::temp_dir();
    if let Some(kind) = case["nest_kind"].as_str() {
        let depth = case["depth"].as_u64().unwrap_or(100) as usize;
        println!("nesting {} depth {}: {:?}", kind, depth, run_nest(kind, &[depth], &dir));
        return;
    }
    let src = String::from_utf8(unhex(case["hex"].as_str().expect("case.hex"))).expect("utf8");
    println!("input: {:?}", src);
    let mut deaths = Vec::new();
    let cases = [(0usize, true, src.as_str())];
    let r = run_isolated("lex", "replay", &cases, &dir, &mut deaths);
    println!("lexer: {}", r.get(&0).cloned().unwrap_or_default());
    let r = run_isolated("mon", "replay", &cases, &dir, &mut deaths);
    println!("monitor: {}", r.get(&0).cloned().unwrap_or_default().replace('\x1f', " ;; "));
    println!("expected: {}", v["expected"].as_str().unwrap_or("?"));
}

fn main() {
    let argv: Vec<String> = std::env::args().collect();
    if argv.len() > 2 && argv[1] == "child" {
        child_main(&argv[2..]);
        return;
    }
    let args = Args::parse();
    if let Some(p) = &args.replay {
        replay(p);
        return;
    }
    install_hook();
    let t_start = Instant::now();
    let thorough = args.thorough();
    let mut rng = Rng::new(args.seed);
    let mut hist = Hist::default();

    // ---- inputs
    let mut inputs: Vec<(String, String)> = Vec::new(); // (family, text)
    // corpus: one input per file under corpus/C09 (run first)
    let corpus_dir = std::path::Path::new(env!("CARGO_MANIFEST_DIR")).join("../corpus/C09");
    let mut corpus_files: Vec<_> = std::fs::read_dir(&corpus_dir).map(|rd| rd.flatten().map(|e| e.path()).collect()).unwrap_or_default();
    corpus_files.sort();
    for p in corpus_files {
        if let Ok(t) = std::fs::read_to_string(&p) {
            inputs.push(("corpus".into(), truncate_to(&t, MAX_LEN).to_string()));
        }
    }
    let n_corpus = inputs.len();
    // deterministic family: multi-byte characters at every lexer decision point
    for t in gen_decision_points() {
        inputs.push(("decision-point".into(), t));
    }
    let scale = |quick: usize, thorough_n: usize| -> usize {
        args.extra.get("scale").and_then(|s| s.parse::<f64>().ok()).map(|f| (quick as f64 * f) as usize).unwrap_or(if thorough { thorough_n } else { quick })
    };
    let n_bytes = scale(1500, 30000);
    let n_soup = scale(2000, 40000);
    let n_mut = scale(2200, 45000);
    for _ in 0..n_bytes {
        let (s, fam) = gen_bytes(&mut rng);
        inputs.push((fam.into(), s));
    }
    for i in 0..n_soup {
        let bad = i % 5 == 4;
        inputs.push((if bad { "soup:non-ascii".into() } else { "soup".into() }, gen_soup(&mut rng, bad)));
    }
    let n_expr = scale(900, 20000);
    for _ in 0..n_expr {
        let mut e = String::new();
        let d = 2 + rng.below(3) as u32;
        gen_expr(&mut rng, d, &mut Vec::new(), &mut e);
        inputs.push(("expr".into(), truncate_to(&e, MAX_LEN).to_string()));
    }
    let seeds = collect_seeds();
    hist.addn("seeds", seeds.len() as u64);
    if !seeds.is_empty() {
        // every seed unchanged once, then truncation at every token for a few seeds (all in thorough)
        for s in &seeds {
            inputs.push(("seed".into(), s.text.clone()));
        }
        let n_trunc_seeds = if thorough { 12 } else { 2 };
        for k in 0..n_trunc_seeds {
            let s = &seeds[(rng.below(seeds.len() as u64) as usize + k) % seeds.len()];
            for (_, b) in s.toks.iter().take(if thorough { 1200 } else { 250 }) {
                inputs.push(("mut:truncate-every".into(), s.text[..*b].to_string()));
            }
        }
        for _ in 0..n_mut {
            let s = rng.pick(&seeds);
            let (m, kind) = mutate(&mut rng, s);
            inputs.push((kind.into(), m));
        }
    }
    let n = inputs.len();
    let mut distinct = BTreeSet::new();
    let mut nontrivial = 0u64;
    for (fam, s) in &inputs {
        hist.add(&format!("family:{}", fam));
        hist.add(&format!("chars:{}", non_ascii_class(s)));
        hist.add(&format!(
            "len:{}",
            match s.len() {
                0..=15 => "0-15",
                16..=127 => "16-127",
                128..=1023 => "128-1023",
                _ => "1024-4096",
            }
        ));
        if s.len() >= 2 && distinct.insert(fnv(s.as_bytes())) {
            nontrivial += 1;
        }
    }

    // ---- tie: lexer
    let mut deaths = Vec::new();
    let cases: Vec<(usize, bool, &str)> = inputs.iter().enumerate().map(|(i, (_, s))| (i, false, s.as_str())).collect();
    let lex = run_isolated_par("lex", &cases, &args.out, &mut deaths, 4);
    let t_lex = t_start.elapsed().as_secs_f64();
    let mut model_in = args.file("model_in.txt");
    let mut impl_out = args.file("impl_out.txt");
    let mut cases_f = args.file("cases.txt");
    let mut lexer_panics: BTreeMap<String, serde_json::Value> = BTreeMap::new();
    let mut n_panic = 0u64;
    let mut unescape_panics: BTreeMap<String, serde_json::Value> = BTreeMap::new();
    for (i, (fam, s)) in inputs.iter().enumerate() {
        let r = lex.get(&i).cloned().unwrap_or_else(|| "missing".into());
        writeln!(model_in, "in={}", hex(s.as_bytes())).unwrap();
        writeln!(impl_out, "{}", r).unwrap();
        writeln!(cases_f, "{} {}", fam, hex(s.as_bytes())).unwrap();
        if r.contains(":panic:") {
            hist.add("unescape:panic");
            for w in r.split(' ').filter(|w| w.starts_with("U:") && w.contains(":panic:")) {
                let site = w.splitn(3, ':').nth(2).unwrap_or("?").to_string();
                unescape_panics.entry(site.clone()).or_insert_with(|| {
                    // the smallest input: the string token itself is in the line, report the whole input
                    serde_json::json!({"key": format!("unescape-{}", site), "site": site, "hex": hex(s.as_bytes()), "text": one_line(s, 200), "family": fam, "index": i})
                });
            }
        }
        let class = if r.starts_with("ok") {
            if r.contains("## ##") { "lex:ok" } else { "lex:ok-with-errors" }
        } else if r.starts_with("panic") {
            "lex:panic"
        } else {
            "lex:died"
        };
        hist.add(class);
        if let Some(site) = r.strip_prefix("panic:") {
            n_panic += 1;
            // shrink the first few per (site, coarse class); all are counted
            if lexer_panics.len() < 40 {
                let coarse = format!("{}:{}:{}", site, s.starts_with('\''), s.contains("\"\\"));
                if !lexer_panics.contains_key(&coarse) || lexer_panics.len() < 12 {
                    let min = shrink_panic(s, site);
                    let key = panic_key(&min, site);
                    lexer_panics.entry(key.clone()).or_insert_with(|| {
                        serde_json::json!({"key": key, "site": site, "minimal": min, "minimal_hex": hex(min.as_bytes()), "hex": hex(s.as_bytes()), "family": fam, "index": i})
                    });
                    lexer_panics.entry(coarse).or_insert(serde_json::Value::Null);
                }
            }
        } else if !r.starts_with("ok") {
            let key = format!("lexer-{}", r);
            lexer_panics.entry(key.clone()).or_insert_with(|| serde_json::json!({"key": key, "site": r, "minimal": s, "minimal_hex": hex(s.as_bytes()), "hex": hex(s.as_bytes()), "family": fam, "index": i}));
        }
    }
    model_in.flush().unwrap();
    impl_out.flush().unwrap();
    cases_f.flush().unwrap();
    let lexer_panics: Vec<serde_json::Value> = lexer_panics.into_values().filter(|v| !v.is_null()).collect();

    // ---- monitor (a subset in quick: all corpus + every k-th input; prelude on for every 25th of those)
    let mon_stride = args.extra.get("mon_stride").and_then(|s| s.parse().ok()).unwrap_or(if thorough { 3 } else { 2 });
    let prelude_stride = if thorough { 10 } else { 12 };
    let shards: usize = args.extra.get("shards").and_then(|s| s.parse().ok()).unwrap_or(6);
    let mon_cases: Vec<(usize, bool, &str)> = inputs
        .iter()
        .enumerate()
        // the deterministic lexer family is covered completely by the lexer tie; a sixth of it goes through the later stages
        .filter(|(i, (fam, _))| *i < n_corpus || (if fam == "decision-point" { i % 6 == 0 } else { i % mon_stride == 0 }))
        .enumerate()
        .map(|(k, (i, (_, s)))| (i, i < n_corpus || k % prelude_stride == 0, s.as_str()))
        .collect();
    let mon = run_isolated_par("mon", &mon_cases, &args.out, &mut deaths, shards);
    let t_mon = t_start.elapsed().as_secs_f64() - t_lex;
    let mut mon_viol: BTreeMap<String, serde_json::Value> = BTreeMap::new();
    let mut mon_counts: BTreeMap<String, u64> = BTreeMap::new();
    let mut reported_errors = 0u64;
    for (i, with_prelude, s) in &mon_cases {
        let r = mon.get(i).cloned().unwrap_or_else(|| "missing".into());
        let mut parts = r.splitn(2, '\t');
        let summary = parts.next().unwrap_or("");
        let viols = parts.next().unwrap_or("");
        if summary.starts_with("abort") || summary.starts_with("hang") || summary.starts_with("stack-overflow") || summary == "missing" {
            let key = format!("frontend-{}", summary);
            *mon_counts.entry(key.clone()).or_insert(0) += 1;
            hist.add("mon:died");
            mon_viol.entry(key.clone()).or_insert_with(|| serde_json::json!({"key": key, "detail": "the child running parse_partial_expr/typecheck_str died or hung on this input", "hex": hex(s.as_bytes()), "text": one_line(s, 300), "prelude": with_prelude, "index": i}));
            continue;
        }
        for w in summary.split(' ') {
            if let Some(nn) = w.strip_prefix("errors:") {
                reported_errors += nn.parse::<u64>().unwrap_or(0);
            } else {
                hist.add(&format!("mon:{}", w));
            }
        }
        for v in viols.split('\x1f').filter(|v| !v.is_empty()) {
            let (key, detail) = v.split_once('|').unwrap_or((v, ""));
            *mon_counts.entry(key.to_string()).or_insert(0) += 1;
            let better = match mon_viol.get(key) {
                None => true,
                Some(old) => old["hex"].as_str().map_or(0, |h| h.len()) > s.len() * 2,
            };
            if better {
                mon_viol.insert(key.to_string(), serde_json::json!({"key": key, "detail": detail, "hex": hex(s.as_bytes()), "text": one_line(s, 300), "prelude": with_prelude, "index": i}));
            }
        }
    }

    // ---- nesting sweep (one child per kind, in parallel)
    let mut nest = serde_json::Map::new();
    let mut nest_viol = Vec::new();
    let depths: Vec<usize> = if thorough { vec![10, 50, 100, 200, 300, 500, 750, 1000, 1500, 2000] } else { vec![10, 100, 200, 500, 1000, 2000] };
    let nest_results: Vec<(&str, Vec<(usize, String)>, usize)> = std::thread::scope(|sc| {
        let hs: Vec<_> = NEST_KINDS
            .iter()
            .map(|kind| {
                let depths = depths.clone();
                let dir = args.out.clone();
                sc.spawn(move || {
                    let r = run_nest(kind, &depths, &dir);
                    // bisect the largest working depth between the last success and the first failure
                    let mut largest_ok = r.iter().filter(|(_, x)| x.starts_with("done")).map(|(d, _)| *d).max().unwrap_or(0);
                    if let Some((bad, _)) = r.iter().find(|(_, x)| !x.starts_with("done")) {
                        let (mut lo, mut hi) = (r.iter().filter(|(d, x)| d < bad && x.starts_with("done")).map(|(d, _)| *d).max().unwrap_or(0), *bad);
                        while thorough && hi - lo > 1 && hi - lo > lo / 10 {
                            let mid = (lo + hi) / 2;
                            let ok = run_nest(kind, &[mid], &dir).first().map_or(false, |(_, x)| x.starts_with("done"));
                            if ok { lo = mid } else { hi = mid }
                        }
                        largest_ok = lo;
                    }
                    (*kind, r, largest_ok)
                })
            })
            .collect();
        hs.into_iter().map(|h| h.join().expect("nest thread")).collect()
    });
    for (kind, r, largest_ok) in nest_results {
        let first_bad = r.iter().find(|(_, x)| !x.starts_with("done")).cloned();
        for (d, x) in &r {
            hist.add(if x.starts_with("done ok") { "nest:ok" } else if x.starts_with("done") { "nest:rejected" } else { "nest:crash" });
            if !x.starts_with("done") && *d <= 200 {
                nest_viol.push(serde_json::json!({"key": format!("nesting-crash:{}:depth<=200", kind), "nest_kind": kind, "depth": d, "result": x}));
            }
        }
        let log: Vec<String> = r.iter().map(|(d, x)| format!("{}:{}", d, one_line(x, 40))).collect();
        nest.insert(
            kind.to_string(),
            serde_json::json!({"largest_depth_ok": largest_ok, "first_failure": first_bad.map(|(d, r)| format!("{}: {}", d, r)), "log": log}),
        );
    }
    let t_nest = t_start.elapsed().as_secs_f64() - t_lex - t_mon;

    gvh::out::write_json(
        &args.out.join("monitor.json"),
        &serde_json::json!({
            "lexer_panics": lexer_panics,
            "unescape_panics": unescape_panics.values().collect::<Vec<_>>(),
            "monitor_violations": mon_viol.values().collect::<Vec<_>>(),
            "monitor_counts": mon_counts,
            "nesting": nest,
            "nesting_violations": nest_viol,
            "deaths": deaths,
        }),
    );
    gvh::out::write_json(
        &args.out.join("stats.json"),
        &serde_json::json!({
            "evaluations": n as u64 + mon_cases.len() as u64,
            "lexer_cases": n,
            "lexer_panics": n_panic,
            "monitor_cases": mon_cases.len(),
            "monitor_with_prelude": mon_cases.iter().filter(|c| c.1).count(),
            "reported_errors_checked": reported_errors,
            "distinct_nontrivial": nontrivial,
            "rule": "inputs of at least 2 bytes, distinct by content (FNV-1a of the bytes); families: corpus, a deterministic cross product (lexer construct x multi-byte character class x offset 0..3 after the opening bytes x continuation: EOF / closing bytes / text / new line), random bytes forced to UTF-8 (lossy / weighted chars / ASCII), token soups with random indentation, random small expression trees, mutants (delete/duplicate/swap/insert tokens, re-indent, truncate at and inside tokens) of windows of std/*.glu, tests/pass/*.glu, examples/*.glu",
            "hist": hist.to_json(),
            "wall": {"lexer_s": t_lex, "monitor_s": t_mon, "nesting_s": t_nest},
        }),
    );
}
