//! C18: printed types read back as the same type.
//!
//! For generated types (`Ty`, mirrored by `coq/theories/Front/TypeSyntax.v`):
//!   * the REAL printer (`Display` = `TypeFormatter::new(t)`, and `.width(w)` for several w) is
//!     tokenised with the REAL tokenizer and compared with the extracted model's `print Top t`;
//!   * the REAL parser reads the printed text back inside `let _ : <type> = ()` (variants also
//!     inside `type T = <type>`, the only place the grammar admits them) and the parsed type is
//!     compared with the original after canonicalisation -- the property itself;
//!   * the extracted model `parse` and the real parser are compared on the printed token strings
//!     and on one-token mutations of them (accept/reject and the parsed type).
//!
//! Output files in --out: model_in.txt, impl_out.txt, cases.txt, stats.json, roundtrip.jsonl
use gluon_base::ast::{Expr, SpannedExpr};
use gluon_base::kind::Kind;
use gluon_base::mk_ast_arena;
use gluon_base::symbol::{Name, Symbol, SymbolModule, Symbols};
use gluon_base::types::{
    Alias, ArcType, ArgType, BuiltinType, Field, Generic, KindedIdent, Type, TypeCache, TypeFormatter, TypePtr,
};
use gvh::out::{fnv, Args, Hist};
use gvh::rng::Rng;
use std::io::Write;

// ---------------------------------------------------------------------------------------------
// The modelled fragment of types
// ---------------------------------------------------------------------------------------------
#[derive(Clone, PartialEq, Eq, Hash, Debug)]
pub enum Ty {
    /// builtin (`Int`), identifier (`Option`) or generic (`a`): one identifier token
    Id(String),
    /// `(->)`
    FunCon,
    /// `a -> b` / `[a] -> b`
    Fun(bool, Box<Ty>, Box<Ty>),
    App(Box<Ty>, Vec<Ty>),
    Forall(Vec<String>, Box<Ty>),
    /// type fields (name, params, type), value fields, row tail
    Record(Vec<(String, Vec<String>, Ty)>, Vec<(String, Ty)>, Option<Box<Ty>>),
    Variant(Vec<(String, Ctor)>, Option<Box<Ty>>),
    /// `()` is `Tuple []`
    Tuple(Vec<Ty>),
    Effect(Vec<(String, Ty)>, Option<Box<Ty>>),
    /// anything outside the fragment met in a parsed type
    Other(String),
}
#[derive(Clone, PartialEq, Eq, Hash, Debug)]
pub enum Ctor {
    Simple(Vec<Ty>),
    Gadt(Ty),
}

fn is_op_name(s: &str) -> bool {
    s.starts_with(gluon_base::ast::is_operator_char)
}

/// S-expression rendering shared with the model driver (coq/extract/c18/driver.ml).
fn sexp(t: &Ty, o: &mut String) {
    fn names(ns: &[String], o: &mut String) {
        o.push('(');
        for (i, n) in ns.iter().enumerate() {
            if i > 0 {
                o.push(' ');
            }
            o.push_str(n);
        }
        o.push(')');
    }
    fn list(ts: &[Ty], o: &mut String) {
        o.push('(');
        for (i, t) in ts.iter().enumerate() {
            if i > 0 {
                o.push(' ');
            }
            sexp(t, o);
        }
        o.push(')');
    }
    fn fields(fs: &[(String, Ty)], o: &mut String) {
        o.push('(');
        for (i, (n, t)) in fs.iter().enumerate() {
            if i > 0 {
                o.push(' ');
            }
            o.push('(');
            if is_op_name(n) {
                o.push_str("op ");
            } else {
                o.push_str("id ");
            }
            o.push_str(n);
            o.push(' ');
            sexp(t, o);
            o.push(')');
        }
        o.push(')');
    }
    fn rest(r: &Option<Box<Ty>>, o: &mut String) {
        match r {
            None => o.push_str("none"),
            Some(t) => {
                o.push_str("(some ");
                sexp(t, o);
                o.push(')');
            }
        }
    }
    match t {
        Ty::Id(n) => {
            o.push_str("(id ");
            o.push_str(n);
            o.push(')');
        }
        Ty::FunCon => o.push_str("(funcon)"),
        Ty::Fun(i, a, r) => {
            o.push_str(if *i { "(ifun " } else { "(fun " });
            sexp(a, o);
            o.push(' ');
            sexp(r, o);
            o.push(')');
        }
        Ty::App(f, args) => {
            o.push_str("(app ");
            sexp(f, o);
            o.push(' ');
            list(args, o);
            o.push(')');
        }
        Ty::Forall(vs, t) => {
            o.push_str("(forall ");
            names(vs, o);
            o.push(' ');
            sexp(t, o);
            o.push(')');
        }
        Ty::Record(tfs, fs, r) => {
            o.push_str("(record (");
            for (i, (n, ps, t)) in tfs.iter().enumerate() {
                if i > 0 {
                    o.push(' ');
                }
                o.push('(');
                o.push_str(n);
                o.push(' ');
                names(ps, o);
                o.push(' ');
                sexp(t, o);
                o.push(')');
            }
            o.push_str(") ");
            fields(fs, o);
            o.push(' ');
            rest(r, o);
            o.push(')');
        }
        Ty::Variant(cs, r) => {
            o.push_str("(variant (");
            for (i, (n, c)) in cs.iter().enumerate() {
                if i > 0 {
                    o.push(' ');
                }
                match c {
                    Ctor::Simple(ts) => {
                        o.push_str("(simple ");
                        o.push_str(n);
                        o.push(' ');
                        list(ts, o);
                        o.push(')');
                    }
                    Ctor::Gadt(t) => {
                        o.push_str("(gadt ");
                        o.push_str(n);
                        o.push(' ');
                        sexp(t, o);
                        o.push(')');
                    }
                }
            }
            o.push_str(") ");
            rest(r, o);
            o.push(')');
        }
        Ty::Tuple(ts) => {
            o.push_str("(tuple ");
            list(ts, o);
            o.push(')');
        }
        Ty::Effect(fs, r) => {
            o.push_str("(effect ");
            fields(fs, o);
            o.push(' ');
            rest(r, o);
            o.push(')');
        }
        Ty::Other(s) => {
            o.push_str("(other ");
            o.push_str(&s.replace(|c: char| c.is_whitespace() || c == '(' || c == ')', "_"));
            o.push(')');
        }
    }
}
fn sx(t: &Ty) -> String {
    let mut s = String::new();
    sexp(t, &mut s);
    s
}

fn size(t: &Ty) -> usize {
    let opt = |r: &Option<Box<Ty>>| r.as_ref().map(|t| size(t)).unwrap_or(0);
    match t {
        Ty::Id(_) | Ty::FunCon | Ty::Other(_) => 1,
        Ty::Fun(_, a, r) => 1 + size(a) + size(r),
        Ty::App(f, args) => 1 + size(f) + args.iter().map(size).sum::<usize>(),
        Ty::Forall(_, t) => 1 + size(t),
        Ty::Record(tfs, fs, r) => 1 + tfs.iter().map(|x| size(&x.2)).sum::<usize>() + fs.iter().map(|x| size(&x.1)).sum::<usize>() + opt(r),
        Ty::Variant(cs, r) => {
            1 + cs
                .iter()
                .map(|(_, c)| match c {
                    Ctor::Simple(ts) => 1 + ts.iter().map(size).sum::<usize>(),
                    Ctor::Gadt(t) => 1 + size(t),
                })
                .sum::<usize>()
                + opt(r)
        }
        Ty::Tuple(ts) => 1 + ts.iter().map(size).sum::<usize>(),
        Ty::Effect(fs, r) => 1 + fs.iter().map(|x| size(&x.1)).sum::<usize>() + opt(r),
    }
}

fn kinds(t: &Ty, h: &mut Hist) {
    let opt = |r: &Option<Box<Ty>>, h: &mut Hist| {
        if let Some(t) = r {
            h.add("node:row-tail");
            kinds(t, h)
        }
    };
    match t {
        Ty::Id(_) => h.add("node:id"),
        Ty::FunCon => h.add("node:funcon"),
        Ty::Other(_) => h.add("node:other"),
        Ty::Fun(i, a, r) => {
            h.add(if *i { "node:implicit-fun" } else { "node:fun" });
            kinds(a, h);
            kinds(r, h)
        }
        Ty::App(f, args) => {
            h.add("node:app");
            kinds(f, h);
            args.iter().for_each(|a| kinds(a, h))
        }
        Ty::Forall(_, t) => {
            h.add("node:forall");
            kinds(t, h)
        }
        Ty::Record(tfs, fs, r) => {
            h.add("node:record");
            for x in tfs {
                h.add("node:type-field");
                kinds(&x.2, h)
            }
            for x in fs {
                if is_op_name(&x.0) {
                    h.add("node:operator-field");
                }
                kinds(&x.1, h)
            }
            opt(r, h)
        }
        Ty::Variant(cs, r) => {
            h.add("node:variant");
            for (_, c) in cs {
                match c {
                    Ctor::Simple(ts) => ts.iter().for_each(|a| kinds(a, h)),
                    Ctor::Gadt(t) => {
                        h.add("node:gadt-ctor");
                        kinds(t, h)
                    }
                }
            }
            opt(r, h)
        }
        Ty::Tuple(ts) => {
            h.add(if ts.is_empty() { "node:unit" } else { "node:tuple" });
            ts.iter().for_each(|a| kinds(a, h))
        }
        Ty::Effect(fs, r) => {
            h.add("node:effect");
            fs.iter().for_each(|x| kinds(&x.1, h));
            opt(r, h)
        }
    }
}

fn contains_variant(t: &Ty) -> bool {
    let opt = |r: &Option<Box<Ty>>| r.as_ref().map(|t| contains_variant(t)).unwrap_or(false);
    match t {
        Ty::Id(_) | Ty::FunCon | Ty::Other(_) => false,
        Ty::Fun(_, a, r) => contains_variant(a) || contains_variant(r),
        Ty::App(f, args) => contains_variant(f) || args.iter().any(contains_variant),
        Ty::Forall(_, t) => contains_variant(t),
        Ty::Record(tfs, fs, r) => tfs.iter().any(|x| contains_variant(&x.2)) || fs.iter().any(|x| contains_variant(&x.1)) || opt(r),
        Ty::Variant(..) => true,
        Ty::Tuple(ts) => ts.iter().any(contains_variant),
        Ty::Effect(fs, r) => fs.iter().any(|x| contains_variant(&x.1)) || opt(r),
    }
}

// ---------------------------------------------------------------------------------------------
// Ty -> ArcType (built with the gluon_base::types constructors)
// ---------------------------------------------------------------------------------------------
fn to_arc(t: &Ty, sy: &mut Symbols) -> ArcType {
    match t {
        Ty::Id(n) => match n.parse::<BuiltinType>() {
            Ok(b) => Type::builtin(b),
            Err(()) if n.starts_with(char::is_uppercase) => Type::ident(KindedIdent { name: sy.simple_symbol(n.as_str()), typ: Kind::hole() }),
            Err(()) => Type::generic(Generic::new(sy.simple_symbol(n.as_str()), Kind::hole())),
        },
        Ty::FunCon => Type::function_builtin(),
        Ty::Fun(i, a, r) => {
            let a = to_arc(a, sy);
            let r = to_arc(r, sy);
            if *i { Type::function_implicit(vec![a], r) } else { Type::function(vec![a], r) }
        }
        Ty::App(f, args) => {
            let f = to_arc(f, sy);
            let args = args.iter().map(|a| to_arc(a, sy)).collect();
            Type::app(f, args)
        }
        Ty::Forall(vs, t) => {
            let ps = vs.iter().map(|v| Generic::new(sy.simple_symbol(v.as_str()), Kind::hole())).collect();
            Type::forall(ps, to_arc(t, sy))
        }
        Ty::Record(tfs, fs, r) => {
            let types = tfs
                .iter()
                .map(|(n, ps, t)| {
                    let name = sy.simple_symbol(n.as_str());
                    let ps = ps.iter().map(|v| Generic::new(sy.simple_symbol(v.as_str()), Kind::hole())).collect();
                    Field::new(name.clone(), Alias::new(name, ps, to_arc(t, sy)))
                })
                .collect();
            let fields = fs.iter().map(|(n, t)| Field::new(sy.simple_symbol(n.as_str()), to_arc(t, sy))).collect();
            match r {
                None => Type::record(types, fields),
                Some(r) => Type::poly_record(types, fields, to_arc(r, sy)),
            }
        }
        Ty::Variant(cs, r) => {
            let fields = cs
                .iter()
                .map(|(n, c)| {
                    let name = sy.simple_symbol(n.as_str());
                    match c {
                        Ctor::Simple(ts) => Field::ctor(name, ts.iter().map(|t| to_arc(t, sy)).collect::<Vec<_>>()),
                        Ctor::Gadt(t) => Field::new(name, to_arc(t, sy)),
                    }
                })
                .collect();
            match r {
                None => Type::variant(fields),
                Some(r) => Type::poly_variant(fields, to_arc(r, sy)),
            }
        }
        Ty::Tuple(ts) => {
            let elems: Vec<ArcType> = ts.iter().map(|t| to_arc(t, sy)).collect();
            Type::tuple(sy, elems)
        }
        Ty::Effect(fs, r) => {
            let fields = fs.iter().map(|(n, t)| Field::new(sy.simple_symbol(n.as_str()), to_arc(t, sy))).collect();
            match r {
                None => Type::effect(fields),
                Some(r) => Type::poly_effect(fields, to_arc(r, sy)),
            }
        }
        Ty::Other(_) => Type::hole(),
    }
}

// ---------------------------------------------------------------------------------------------
// canonical form of a real type (ArcType or the parser's AstType): spans, kinds, metadata and the
// Builtin/Ident/Generic/Alias distinction (decided by spelling alone) are dropped; nested
// applications are flattened; `(->) a b` is a function.
// ---------------------------------------------------------------------------------------------
fn canon<T>(t: &T) -> Ty
where
    T: TypePtr,
    T::Id: AsRef<str>,
    T::SpannedId: AsRef<str>,
{
    fn ident(s: &str) -> String {
        Name::new(s).name().as_str().to_string()
    }
    fn row<T>(mut r: &T, tfs: &mut Vec<(String, Vec<String>, Ty)>, fs: &mut Vec<(String, Ty)>) -> Option<Box<Ty>>
    where
        T: TypePtr,
        T::Id: AsRef<str>,
        T::SpannedId: AsRef<str>,
    {
        loop {
            match &**r {
                Type::EmptyRow => return None,
                Type::ExtendRow { fields, rest } => {
                    for f in fields.iter() {
                        fs.push((f.name.as_ref().to_string(), canon(&f.typ)));
                    }
                    r = rest;
                }
                Type::ExtendTypeRow { types, rest } => {
                    for f in types.iter() {
                        let ps = f.typ.params().iter().map(|g| g.id.as_ref().to_string()).collect();
                        tfs.push((f.name.as_ref().to_string(), ps, canon(f.typ.unresolved_type())));
                    }
                    r = rest;
                }
                _ => return Some(Box::new(canon(r))),
            }
        }
    }
    match &**t {
        Type::Hole => Ty::Id("_".into()),
        Type::Opaque => Ty::Other("<opaque>".into()),
        Type::Error => Ty::Other("!".into()),
        Type::Builtin(BuiltinType::Function) => Ty::FunCon,
        Type::Builtin(b) => Ty::Id(b.to_str().into()),
        Type::Ident(id) => Ty::Id(ident(id.name.as_ref())),
        Type::Generic(g) => Ty::Id(g.id.as_ref().into()),
        Type::Alias(a) => Ty::Id(ident(a.name.as_ref())),
        Type::Projection(ids) => Ty::Id(ids.iter().map(|i| i.as_ref().to_string()).collect::<Vec<_>>().join(".")),
        Type::Variable(v) => Ty::Other(format!("var{}", v.id)),
        Type::Skolem(s) => Ty::Other(format!("{}@{}", s.name.as_ref(), s.id)),
        Type::Forall(ps, t) => Ty::Forall(ps.iter().map(|g| g.id.as_ref().to_string()).collect(), Box::new(canon(t))),
        Type::Function(at, a, r) => Ty::Fun(*at == ArgType::Implicit, Box::new(canon(a)), Box::new(canon(r))),
        Type::App(f, args) => {
            if let Some((a, r)) = t.as_function() {
                return Ty::Fun(false, Box::new(canon(a)), Box::new(canon(r)));
            }
            let mut cargs: Vec<Ty> = args.iter().map(canon).collect();
            match canon(f) {
                Ty::App(f2, mut a2) => {
                    a2.append(&mut cargs);
                    Ty::App(f2, a2)
                }
                cf => Ty::App(Box::new(cf), cargs),
            }
        }
        Type::Record(r) => {
            let (mut tfs, mut fs) = (vec![], vec![]);
            let rest = row(r, &mut tfs, &mut fs);
            // base/src/types/mod.rs:2576 is_tuple
            let tuple = tfs.is_empty() && rest.is_none() && fs.iter().enumerate().all(|(i, (n, _))| n.starts_with('_') && n[1..].parse() == Ok(i));
            if tuple { Ty::Tuple(fs.into_iter().map(|x| x.1).collect()) } else { Ty::Record(tfs, fs, rest) }
        }
        Type::Variant(r) => {
            let (mut tfs, mut fs) = (vec![], vec![]);
            let rest = row(r, &mut tfs, &mut fs);
            let cs = fs
                .into_iter()
                .map(|(n, t)| {
                    // is_simple_constructor: a function spine ending in Opaque
                    let mut args = vec![];
                    let mut cur = &t;
                    loop {
                        match cur {
                            Ty::Fun(_, a, r) => {
                                args.push((**a).clone());
                                cur = r;
                            }
                            Ty::Other(s) if s == "<opaque>" => return (n, Ctor::Simple(args)),
                            _ => return (n, Ctor::Gadt(strip_implicit(&t))),
                        }
                    }
                })
                .collect();
            Ty::Variant(cs, rest)
        }
        Type::Effect(r) => {
            let (mut tfs, mut fs) = (vec![], vec![]);
            let rest = row(r, &mut tfs, &mut fs);
            Ty::Effect(fs, rest)
        }
        Type::EmptyRow => Ty::Other("EmptyRow".into()),
        Type::ExtendRow { .. } | Type::ExtendTypeRow { .. } => Ty::Other("row".into()),
    }
}
fn strip_implicit(t: &Ty) -> Ty {
    t.clone()
}

// ---------------------------------------------------------------------------------------------
// real printer / tokenizer / parser
// ---------------------------------------------------------------------------------------------
const WIDTHS: &[usize] = &[20, 40, 80, 120, 200];

fn print_at(t: &ArcType, w: Option<usize>) -> String {
    match w {
        None => format!("{}", t),
        Some(w) => format!("{}", TypeFormatter::new(t).width(w)),
    }
}

/// Tokens of a printed type.  `gluon_parser::verif::tokens` cannot be used (the tokenizer yields
/// `EOF` for ever and the hook does not stop on it), so the type-level token classes of
/// parser/src/token.rs are re-implemented here: single-character brackets and comma, maximal
/// runs of operator characters (`is_operator_byte`), identifiers.  The same text is fed to the
/// real parser, so a mistake here shows up as a model/real parser disagreement.
fn tokens(text: &str) -> Result<Vec<String>, String> {
    let b = text.as_bytes();
    let mut i = 0;
    let mut out = vec![];
    while i < b.len() {
        let c = b[i];
        if c == b' ' || c == b'\n' || c == b'\t' || c == b'\r' {
            i += 1;
        } else if b"()[]{},".contains(&c) {
            out.push((c as char).to_string());
            i += 1;
        } else if gluon_base::ast::is_operator_byte(c) {
            let s = i;
            while i < b.len() && gluon_base::ast::is_operator_byte(b[i]) {
                i += 1;
            }
            out.push(text[s..i].to_string());
        } else if c.is_ascii_alphabetic() || c == b'_' {
            let s = i;
            while i < b.len() && (b[i].is_ascii_alphanumeric() || b[i] == b'_' || b[i] == b'\'') {
                i += 1;
            }
            out.push(text[s..i].to_string());
        } else {
            return Err(format!("lex-error at byte {} ({:?})", i, c as char));
        }
    }
    Ok(out)
}

fn indent(text: &str, by: usize) -> String {
    let pad = " ".repeat(by);
    let mut out = String::new();
    for (i, l) in text.split('\n').enumerate() {
        if i > 0 {
            out.push('\n');
            out.push_str(&pad);
        }
        out.push_str(l);
    }
    out
}

#[derive(Clone, Copy, PartialEq, Debug)]
enum Ctx {
    Let,
    TypeBind,
}

fn source(ctx: Ctx, printed: &str) -> String {
    match ctx {
        Ctx::Let => format!("let _ : {} = ()\n()\n", indent(printed, 8)),
        Ctx::TypeBind => format!("type T = {}\n()\n", indent(printed, 8)),
    }
}

/// Parse `src` with the real parser and return the canonical form of the type annotation /
/// type binding body, or the error text.
fn parse_real(ctx: Ctx, src: &str) -> Result<Ty, String> {
    let mut symbols = Symbols::new();
    mk_ast_arena!(arena);
    let r = gluon_parser::parse_expr((*arena).borrow(), &mut SymbolModule::new("c18".into(), &mut symbols), &TypeCache::default(), src);
    match r {
        Err(e) => Err(format!("{}", e).lines().next().unwrap_or("").to_string()),
        Ok(expr) => find_type(ctx, &expr),
    }
}
fn find_type(ctx: Ctx, e: &SpannedExpr<Symbol>) -> Result<Ty, String> {
    match (&e.value, ctx) {
        (Expr::LetBindings(bs, _), Ctx::Let) => match bs.into_iter().next().and_then(|b| b.typ.as_ref()) {
            Some(t) => Ok(canon(t)),
            None => Err("no type annotation in the parsed binding".into()),
        },
        (Expr::TypeBindings(bs, _), Ctx::TypeBind) => match bs.first() {
            Some(b) => Ok(canon(b.alias.value.unresolved_type())),
            None => Err("no type binding".into()),
        },
        (other, _) => Err(format!("unexpected expression {}", other.kind())),
    }
}

// ---------------------------------------------------------------------------------------------
fn probe() {
    let id = |s: &str| Ty::Id(s.to_string());
    let f = |a: Ty, b: Ty| Ty::Fun(false, Box::new(a), Box::new(b));
    let fi = |a: Ty, b: Ty| Ty::Fun(true, Box::new(a), Box::new(b));
    let app = |h: Ty, a: Vec<Ty>| Ty::App(Box::new(h), a);
    let fa = |v: &[&str], t: Ty| Ty::Forall(v.iter().map(|s| s.to_string()).collect(), Box::new(t));
    let rec = |fs: Vec<(&str, Ty)>, r: Option<Ty>| Ty::Record(vec![], fs.into_iter().map(|(n, t)| (n.to_string(), t)).collect(), r.map(Box::new));
    let var = |cs: Vec<(&str, Vec<Ty>)>, r: Option<Ty>| Ty::Variant(cs.into_iter().map(|(n, t)| (n.to_string(), Ctor::Simple(t))).collect(), r.map(Box::new));
    let cases: Vec<Ty> = vec![
        id("Int"),
        f(id("Int"), id("a")),
        f(f(id("Int"), id("a")), id("b")),
        fi(app(id("Eq"), vec![id("a")]), f(id("a"), id("Bool"))),
        fi(f(id("a"), id("b")), id("c")),
        f(fi(id("a"), id("b")), id("c")),
        app(id("Option"), vec![f(id("a"), id("b")), app(id("List"), vec![id("a")])]),
        app(app(id("F"), vec![id("a")]), vec![id("b")]),
        app(f(id("a"), id("b")), vec![id("c")]),
        fa(&["a", "b"], f(id("a"), id("b"))),
        f(fa(&["a"], id("a")), id("Int")),
        f(id("Int"), fa(&["a"], id("a"))),
        app(id("F"), vec![fa(&["a"], id("a"))]),
        fa(&["a"], fa(&["b"], id("a"))),
        rec(vec![("x", id("Int")), ("+", f(id("Int"), id("Int")))], None),
        rec(vec![("x", id("Int"))], Some(id("r"))),
        rec(vec![], Some(id("r"))),
        Ty::Record(vec![("Test".into(), vec!["a".into()], f(id("a"), id("String")))], vec![("x".into(), id("Int"))], None),
        Ty::Record(vec![("Test".into(), vec![], id("Int"))], vec![], Some(Box::new(id("r")))),
        Ty::Tuple(vec![]),
        Ty::Tuple(vec![id("Int")]),
        Ty::Tuple(vec![id("Int"), f(id("a"), id("b"))]),
        app(id("Array"), vec![id("Int")]),
        Ty::FunCon,
        app(Ty::FunCon, vec![id("a")]),
        app(Ty::FunCon, vec![id("a"), id("b")]),
        app(Ty::FunCon, vec![id("a"), id("b"), id("c")]),
        var(vec![("A", vec![id("Int")]), ("B", vec![])], None),
        var(vec![("A", vec![f(id("a"), id("b")), app(id("F"), vec![id("a")])])], None),
        var(vec![("A", vec![])], Some(id("r"))),
        var(vec![], Some(id("r"))),
        var(vec![], None),
        Ty::Variant(vec![("A".into(), Ctor::Gadt(f(id("Int"), app(id("T"), vec![id("Int")]))))], None),
        f(var(vec![("A", vec![]), ("B", vec![])], None), id("Int")),
        f(id("Int"), var(vec![("A", vec![]), ("B", vec![])], None)),
        app(id("F"), vec![var(vec![("A", vec![]), ("B", vec![])], None)]),
        rec(vec![("x", var(vec![("A", vec![]), ("B", vec![])], None))], None),
        fa(&["a"], var(vec![("A", vec![id("a")])], None)),
        Ty::Effect(vec![("st".into(), app(id("State"), vec![id("s")]))], Some(Box::new(id("r")))),
        Ty::Effect(vec![], None),
        Ty::Effect(vec![], Some(Box::new(id("r")))),
        app(Ty::Effect(vec![("st".into(), id("S"))], Some(Box::new(id("r")))), vec![id("a")]),
        app(id("Eff"), vec![Ty::Effect(vec![("st".into(), id("S"))], Some(Box::new(id("r")))), id("a")]),
        rec(vec![("x", rec(vec![("y", id("Int"))], None))], None),
        app(rec(vec![("x", id("Int"))], None), vec![id("a")]),
        id("_"),
    ];
    let mut sy = Symbols::new();
    for t in &cases {
        let arc = to_arc(t, &mut sy);
        println!("== {}", sx(t));
        println!("   canon(arc) {}", if canon(&arc) == *t { "same".to_string() } else { sx(&canon(&arc)) });
        let mut seen = std::collections::BTreeSet::new();
        for w in std::iter::once(None).chain(WIDTHS.iter().map(|w| Some(*w))) {
            let p = print_at(&arc, w);
            if !seen.insert(p.clone()) {
                continue;
            }
            println!("   w={:?}: {:?}", w, p);
            println!("      tokens {:?}", tokens(&p).map(|v| v.join(" ")));
            for ctx in [Ctx::Let, Ctx::TypeBind] {
                let r = parse_real(ctx, &source(ctx, &p));
                let verdict = match &r {
                    Ok(c) if *c == canon(&arc) => "ROUNDTRIP-OK".to_string(),
                    Ok(c) => format!("DIFFERENT {}", sx(c)),
                    Err(e) => format!("PARSE-ERROR {}", e),
                };
                println!("      {:?}: {}", ctx, verdict);
            }
        }
    }
}

fn probe_raw() {
    let mut sy = Symbols::new();
    let int: ArcType = Type::int();
    let f = |sy: &mut Symbols, n: &str, t: ArcType| Field::new(sy.simple_symbol(n), t);
    let inner = Type::extend_row(vec![f(&mut sy, "y", int.clone())], Type::empty_row());
    let split: ArcType = ArcType::from(Type::Record(Type::extend_row(vec![f(&mut sy, "x", int.clone())], inner.clone())));
    let r: ArcType = Type::generic(Generic::new(sy.simple_symbol("r"), Kind::hole()));
    let inner2 = Type::extend_row(vec![f(&mut sy, "y", int.clone()), f(&mut sy, "z", int.clone())], r.clone());
    let split2: ArcType = ArcType::from(Type::Record(Type::extend_row(vec![f(&mut sy, "x", int.clone()), f(&mut sy, "w", int.clone())], inner2)));
    let alias: ArcType = Type::alias(sy.simple_symbol("Test"), vec![], int.clone());
    let alias_app: ArcType = Type::app(alias.clone(), vec![int.clone()].into_iter().collect());
    let opt_tup: ArcType = ArcType::from(Type::Record(Type::extend_row(vec![f(&mut sy, "_0", int.clone()), f(&mut sy, "_1", int.clone())], r.clone())));
    for (n, t) in [("split-row", split), ("split-row-open", split2), ("alias", alias), ("alias-app", alias_app), ("open-tuple", opt_tup)] {
        let p = format!("{}", t);
        println!("== raw {}: {:?}", n, p);
        let r = parse_real(Ctx::Let, &source(Ctx::Let, &p));
        println!("   {}", match &r { Ok(c) if *c == canon(&t) => "ROUNDTRIP-OK".to_string(), Ok(c) => format!("DIFFERENT {} vs {}", sx(c), sx(&canon(&t))), Err(e) => format!("PARSE-ERROR {}", e) });
    }
}

fn main() {
    let args = Args::parse();
    if args.rest.iter().any(|a| a == "probe") {
        probe();
        probe_raw();
        return;
    }
    let _ = (fnv(b""), Rng::new(0), Hist::default(), contains_variant(&Ty::FunCon), size(&Ty::FunCon));
    let mut h = Hist::default();
    kinds(&Ty::FunCon, &mut h);
    let mut f = args.file("stats.json");
    writeln!(f, "{{}}").unwrap();
}
