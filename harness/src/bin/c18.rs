//! C18: printed types read back as the same type.
//!
//! For generated types (`Ty`, mirrored by `coq/theories/Front/TypeSyntax.v`):
//!   * the REAL printer (`Display` = `TypeFormatter::new(t)`, and `.width(w)` for several w) is
//!     tokenised with the REAL tokenizer and compared with the extracted model's `print Top t`;
//!   * the REAL parser reads the printed text back inside `let _ : <type> = ()` (variants also
//!     inside `type T = <type>`, the only place the grammar admits them) and the parsed type is
//!     compared with the original after canonicalisation -- the property itself;
//!   * the extracted model `parse` and the real parser are compared on the printed token strings
//!     and on one-token mutations of them (accept/reject and the parsed type).
//!
//! Output files in --out: model_in.txt, impl_out.txt, cases.txt, stats.json, roundtrip.jsonl
use gluon_base::ast::{Expr, SpannedExpr};
use gluon_base::kind::Kind;
use gluon_base::mk_ast_arena;
use gluon_base::symbol::{Name, Symbol, SymbolModule, Symbols};
use gluon_base::types::{
    Alias, ArcType, ArgType, BuiltinType, Field, Generic, KindedIdent, Type, TypeCache, TypeFormatter, TypePtr,
};
use gvh::out::{fnv, Args, Hist};
use gvh::rng::Rng;
use std::io::Write;

// ---------------------------------------------------------------------------------------------
// The modelled fragment of types
// ---------------------------------------------------------------------------------------------
#[derive(Clone, PartialEq, Eq, Hash, Debug)]
pub enum Ty {
    /// builtin (`Int`), identifier (`Option`) or generic (`a`): one identifier token
    Id(String),
    /// `(->)`
    FunCon,
    /// `a -> b` / `[a] -> b`
    Fun(bool, Box<Ty>, Box<Ty>),
    App(Box<Ty>, Vec<Ty>),
    Forall(Vec<String>, Box<Ty>),
    /// type fields (name, params, type), value fields, row tail
    Record(Vec<(String, Vec<String>, Ty)>, Vec<(String, Ty)>, Option<Box<Ty>>),
    Variant(Vec<(String, Ctor)>, Option<Box<Ty>>),
    /// `()` is `Tuple []`
    Tuple(Vec<Ty>),
    Effect(Vec<(String, Ty)>, Option<Box<Ty>>),
    /// anything outside the fragment met in a parsed type
    Other(String),
}
#[derive(Clone, PartialEq, Eq, Hash, Debug)]
pub enum Ctor {
    Simple(Vec<Ty>),
    Gadt(Ty),
}

fn is_op_name(s: &str) -> bool {
    s.starts_with(gluon_base::ast::is_operator_char)
}

/// S-expression rendering shared with the model driver (coq/extract/c18/driver.ml).
fn sexp(t: &Ty, o: &mut String) {
    fn names(ns: &[String], o: &mut String) {
        o.push('(');
        for (i, n) in ns.iter().enumerate() {
            if i > 0 {
                o.push(' ');
            }
            o.push_str(n);
        }
        o.push(')');
    }
    fn list(ts: &[Ty], o: &mut String) {
        o.push('(');
        for (i, t) in ts.iter().enumerate() {
            if i > 0 {
                o.push(' ');
            }
            sexp(t, o);
        }
        o.push(')');
    }
    fn fields(fs: &[(String, Ty)], o: &mut String) {
        o.push('(');
        for (i, (n, t)) in fs.iter().enumerate() {
            if i > 0 {
                o.push(' ');
            }
            o.push('(');
            if is_op_name(n) {
                o.push_str("op ");
            } else {
                o.push_str("id ");
            }
            o.push_str(n);
            o.push(' ');
            sexp(t, o);
            o.push(')');
        }
        o.push(')');
    }
    fn rest(r: &Option<Box<Ty>>, o: &mut String) {
        match r {
            None => o.push_str("none"),
            Some(t) => {
                o.push_str("(some ");
                sexp(t, o);
                o.push(')');
            }
        }
    }
    match t {
        Ty::Id(n) => {
            o.push_str("(id ");
            o.push_str(n);
            o.push(')');
        }
        Ty::FunCon => o.push_str("(funcon)"),
        Ty::Fun(i, a, r) => {
            o.push_str(if *i { "(ifun " } else { "(fun " });
            sexp(a, o);
            o.push(' ');
            sexp(r, o);
            o.push(')');
        }
        Ty::App(f, args) => {
            o.push_str("(app ");
            sexp(f, o);
            o.push(' ');
            list(args, o);
            o.push(')');
        }
        Ty::Forall(vs, t) => {
            o.push_str("(forall ");
            names(vs, o);
            o.push(' ');
            sexp(t, o);
            o.push(')');
        }
        Ty::Record(tfs, fs, r) => {
            o.push_str("(record (");
            for (i, (n, ps, t)) in tfs.iter().enumerate() {
                if i > 0 {
                    o.push(' ');
                }
                o.push('(');
                o.push_str(n);
                o.push(' ');
                names(ps, o);
                o.push(' ');
                sexp(t, o);
                o.push(')');
            }
            o.push_str(") ");
            fields(fs, o);
            o.push(' ');
            rest(r, o);
            o.push(')');
        }
        Ty::Variant(cs, r) => {
            o.push_str("(variant (");
            for (i, (n, c)) in cs.iter().enumerate() {
                if i > 0 {
                    o.push(' ');
                }
                match c {
                    Ctor::Simple(ts) => {
                        o.push_str("(simple ");
                        o.push_str(n);
                        o.push(' ');
                        list(ts, o);
                        o.push(')');
                    }
                    Ctor::Gadt(t) => {
                        o.push_str("(gadt ");
                        o.push_str(n);
                        o.push(' ');
                        sexp(t, o);
                        o.push(')');
                    }
                }
            }
            o.push_str(") ");
            rest(r, o);
            o.push(')');
        }
        Ty::Tuple(ts) => {
            o.push_str("(tuple ");
            list(ts, o);
            o.push(')');
        }
        Ty::Effect(fs, r) => {
            o.push_str("(effect ");
            fields(fs, o);
            o.push(' ');
            rest(r, o);
            o.push(')');
        }
        Ty::Other(s) => {
            o.push_str("(other ");
            o.push_str(&s.replace(|c: char| c.is_whitespace() || c == '(' || c == ')', "_"));
            o.push(')');
        }
    }
}
fn sx(t: &Ty) -> String {
    let mut s = String::new();
    sexp(t, &mut s);
    s
}

fn size(t: &Ty) -> usize {
    let opt = |r: &Option<Box<Ty>>| r.as_ref().map(|t| size(t)).unwrap_or(0);
    match t {
        Ty::Id(_) | Ty::FunCon | Ty::Other(_) => 1,
        Ty::Fun(_, a, r) => 1 + size(a) + size(r),
        Ty::App(f, args) => 1 + size(f) + args.iter().map(size).sum::<usize>(),
        Ty::Forall(_, t) => 1 + size(t),
        Ty::Record(tfs, fs, r) => 1 + tfs.iter().map(|x| size(&x.2)).sum::<usize>() + fs.iter().map(|x| size(&x.1)).sum::<usize>() + opt(r),
        Ty::Variant(cs, r) => {
            1 + cs
                .iter()
                .map(|(_, c)| match c {
                    Ctor::Simple(ts) => 1 + ts.iter().map(size).sum::<usize>(),
                    Ctor::Gadt(t) => 1 + size(t),
                })
                .sum::<usize>()
                + opt(r)
        }
        Ty::Tuple(ts) => 1 + ts.iter().map(size).sum::<usize>(),
        Ty::Effect(fs, r) => 1 + fs.iter().map(|x| size(&x.1)).sum::<usize>() + opt(r),
    }
}

fn kinds(t: &Ty, h: &mut Hist) {
    let opt = |r: &Option<Box<Ty>>, h: &mut Hist| {
        if let Some(t) = r {
            h.add("node:row-tail");
            kinds(t, h)
        }
    };
    match t {
        Ty::Id(_) => h.add("node:id"),
        Ty::FunCon => h.add("node:funcon"),
        Ty::Other(_) => h.add("node:other"),
        Ty::Fun(i, a, r) => {
            h.add(if *i { "node:implicit-fun" } else { "node:fun" });
            kinds(a, h);
            kinds(r, h)
        }
        Ty::App(f, args) => {
            h.add("node:app");
            kinds(f, h);
            args.iter().for_each(|a| kinds(a, h))
        }
        Ty::Forall(_, t) => {
            h.add("node:forall");
            kinds(t, h)
        }
        Ty::Record(tfs, fs, r) => {
            h.add("node:record");
            for x in tfs {
                h.add("node:type-field");
                kinds(&x.2, h)
            }
            for x in fs {
                if is_op_name(&x.0) {
                    h.add("node:operator-field");
                }
                kinds(&x.1, h)
            }
            opt(r, h)
        }
        Ty::Variant(cs, r) => {
            h.add("node:variant");
            for (_, c) in cs {
                match c {
                    Ctor::Simple(ts) => ts.iter().for_each(|a| kinds(a, h)),
                    Ctor::Gadt(t) => {
                        h.add("node:gadt-ctor");
                        kinds(t, h)
                    }
                }
            }
            opt(r, h)
        }
        Ty::Tuple(ts) => {
            h.add(if ts.is_empty() { "node:unit" } else { "node:tuple" });
            ts.iter().for_each(|a| kinds(a, h))
        }
        Ty::Effect(fs, r) => {
            h.add("node:effect");
            fs.iter().for_each(|x| kinds(&x.1, h));
            opt(r, h)
        }
    }
}

fn contains_variant(t: &Ty) -> bool {
    let opt = |r: &Option<Box<Ty>>| r.as_ref().map(|t| contains_variant(t)).unwrap_or(false);
    match t {
        Ty::Id(_) | Ty::FunCon | Ty::Other(_) => false,
        Ty::Fun(_, a, r) => contains_variant(a) || contains_variant(r),
        Ty::App(f, args) => contains_variant(f) || args.iter().any(contains_variant),
        Ty::Forall(_, t) => contains_variant(t),
        Ty::Record(tfs, fs, r) => tfs.iter().any(|x| contains_variant(&x.2)) || fs.iter().any(|x| contains_variant(&x.1)) || opt(r),
        Ty::Variant(..) => true,
        Ty::Tuple(ts) => ts.iter().any(contains_variant),
        Ty::Effect(fs, r) => fs.iter().any(|x| contains_variant(&x.1)) || opt(r),
    }
}

// ---------------------------------------------------------------------------------------------
// Ty -> ArcType (built with the gluon_base::types constructors)
// ---------------------------------------------------------------------------------------------
fn to_arc(t: &Ty, sy: &mut Symbols) -> ArcType {
    match t {
        Ty::Id(n) => match n.parse::<BuiltinType>() {
            Ok(b) => Type::builtin(b),
            Err(()) if n.starts_with(char::is_uppercase) => Type::ident(KindedIdent { name: sy.simple_symbol(n.as_str()), typ: Kind::hole() }),
            Err(()) => Type::generic(Generic::new(sy.simple_symbol(n.as_str()), Kind::hole())),
        },
        Ty::FunCon => Type::function_builtin(),
        Ty::Fun(i, a, r) => {
            let a = to_arc(a, sy);
            let r = to_arc(r, sy);
            if *i { Type::function_implicit(vec![a], r) } else { Type::function(vec![a], r) }
        }
        Ty::App(f, args) => {
            let f = to_arc(f, sy);
            let args = args.iter().map(|a| to_arc(a, sy)).collect();
            Type::app(f, args)
        }
        Ty::Forall(vs, t) => {
            let ps = vs.iter().map(|v| Generic::new(sy.simple_symbol(v.as_str()), Kind::hole())).collect();
            Type::forall(ps, to_arc(t, sy))
        }
        Ty::Record(tfs, fs, r) => {
            let types = tfs
                .iter()
                .map(|(n, ps, t)| {
                    let name = sy.simple_symbol(n.as_str());
                    let ps = ps.iter().map(|v| Generic::new(sy.simple_symbol(v.as_str()), Kind::hole())).collect();
                    Field::new(name.clone(), Alias::new(name, ps, to_arc(t, sy)))
                })
                .collect();
            let fields = fs.iter().map(|(n, t)| Field::new(sy.simple_symbol(n.as_str()), to_arc(t, sy))).collect();
            match r {
                None => Type::record(types, fields),
                Some(r) => Type::poly_record(types, fields, to_arc(r, sy)),
            }
        }
        Ty::Variant(cs, r) => {
            let fields = cs
                .iter()
                .map(|(n, c)| {
                    let name = sy.simple_symbol(n.as_str());
                    match c {
                        Ctor::Simple(ts) => Field::ctor(name, ts.iter().map(|t| to_arc(t, sy)).collect::<Vec<_>>()),
                        Ctor::Gadt(t) => Field::new(name, to_arc(t, sy)),
                    }
                })
                .collect();
            match r {
                None => Type::variant(fields),
                Some(r) => Type::poly_variant(fields, to_arc(r, sy)),
            }
        }
        Ty::Tuple(ts) => {
            let elems: Vec<ArcType> = ts.iter().map(|t| to_arc(t, sy)).collect();
            Type::tuple(sy, elems)
        }
        Ty::Effect(fs, r) => {
            let fields = fs.iter().map(|(n, t)| Field::new(sy.simple_symbol(n.as_str()), to_arc(t, sy))).collect();
            match r {
                None => Type::effect(fields),
                Some(r) => Type::poly_effect(fields, to_arc(r, sy)),
            }
        }
        Ty::Other(_) => Type::hole(),
    }
}

// ---------------------------------------------------------------------------------------------
// canonical form of a real type (ArcType or the parser's AstType): spans, kinds, metadata and the
// Builtin/Ident/Generic/Alias distinction (decided by spelling alone) are dropped; nested
// applications are flattened; `(->) a b` is a function.
// ---------------------------------------------------------------------------------------------
fn canon<T>(t: &T) -> Ty
where
    T: TypePtr,
    T::Id: AsRef<str>,
    T::SpannedId: AsRef<str>,
{
    fn ident(s: &str) -> String {
        Name::new(s).name().as_str().to_string()
    }
    fn row<T>(mut r: &T, tfs: &mut Vec<(String, Vec<String>, Ty)>, fs: &mut Vec<(String, Ty)>) -> Option<Box<Ty>>
    where
        T: TypePtr,
        T::Id: AsRef<str>,
        T::SpannedId: AsRef<str>,
    {
        loop {
            match &**r {
                Type::EmptyRow => return None,
                Type::ExtendRow { fields, rest } => {
                    for f in fields.iter() {
                        fs.push((f.name.as_ref().to_string(), canon(&f.typ)));
                    }
                    r = rest;
                }
                Type::ExtendTypeRow { types, rest } => {
                    for f in types.iter() {
                        let ps = f.typ.params().iter().map(|g| g.id.as_ref().to_string()).collect();
                        tfs.push((f.name.as_ref().to_string(), ps, canon(f.typ.unresolved_type())));
                    }
                    r = rest;
                }
                _ => return Some(Box::new(canon(r))),
            }
        }
    }
    match &**t {
        Type::Hole => Ty::Id("_".into()),
        Type::Opaque => Ty::Other("<opaque>".into()),
        Type::Error => Ty::Other("!".into()),
        Type::Builtin(BuiltinType::Function) => Ty::FunCon,
        Type::Builtin(b) => Ty::Id(b.to_str().into()),
        Type::Ident(id) => Ty::Id(ident(id.name.as_ref())),
        Type::Generic(g) => Ty::Id(g.id.as_ref().into()),
        // printed by `printer.symbol(&alias.name)`: the whole symbol text
        Type::Alias(a) => Ty::Id(a.name.as_ref().to_string()),
        Type::Projection(ids) => Ty::Id(ids.iter().map(|i| i.as_ref().to_string()).collect::<Vec<_>>().join(".")),
        Type::Variable(v) => Ty::Other(format!("var{}", v.id)),
        Type::Skolem(s) => Ty::Other(format!("{}@{}", s.name.as_ref(), s.id)),
        Type::Forall(ps, t) => Ty::Forall(ps.iter().map(|g| g.id.as_ref().to_string()).collect(), Box::new(canon(t))),
        Type::Function(at, a, r) => Ty::Fun(*at == ArgType::Implicit, Box::new(canon(a)), Box::new(canon(r))),
        Type::App(f, args) => Ty::App(Box::new(canon(f)), args.iter().map(canon).collect()),
        Type::Record(r) => {
            let (mut tfs, mut fs) = (vec![], vec![]);
            let rest = row(r, &mut tfs, &mut fs);
            // base/src/types/mod.rs:2576 is_tuple
            let tuple = tfs.is_empty() && rest.is_none() && fs.iter().enumerate().all(|(i, (n, _))| n.starts_with('_') && n[1..].parse() == Ok(i));
            if tuple { Ty::Tuple(fs.into_iter().map(|x| x.1).collect()) } else { Ty::Record(tfs, fs, rest) }
        }
        Type::Variant(r) => {
            let (mut tfs, mut fs) = (vec![], vec![]);
            let rest = row(r, &mut tfs, &mut fs);
            let cs = fs
                .into_iter()
                .map(|(n, t)| {
                    // is_simple_constructor: a function spine ending in Opaque
                    let mut args = vec![];
                    let mut cur = &t;
                    loop {
                        match cur {
                            Ty::Fun(_, a, r) => {
                                args.push((**a).clone());
                                cur = r;
                            }
                            Ty::Other(s) if s == "<opaque>" => return (n, Ctor::Simple(args)),
                            _ => return (n, Ctor::Gadt(t.clone())),
                        }
                    }
                })
                .collect();
            Ty::Variant(cs, rest)
        }
        Type::Effect(r) => {
            let (mut tfs, mut fs) = (vec![], vec![]);
            let rest = row(r, &mut tfs, &mut fs);
            Ty::Effect(fs, rest)
        }
        Type::EmptyRow => Ty::Other("EmptyRow".into()),
        Type::ExtendRow { .. } | Type::ExtendTypeRow { .. } => Ty::Other("row".into()),
    }
}
/// The equivalence the round trip is judged by: nested applications are one application
/// (`(F a) b` = `F a b`) and `(->) a b` is `a -> b` (`as_function`, base/src/types/mod.rs:1306).
fn norm(t: &Ty) -> Ty {
    let opt = |r: &Option<Box<Ty>>| r.as_ref().map(|t| Box::new(norm(t)));
    match t {
        Ty::Id(_) | Ty::FunCon | Ty::Other(_) => t.clone(),
        Ty::Fun(i, a, r) => Ty::Fun(*i, Box::new(norm(a)), Box::new(norm(r))),
        Ty::App(f, args) => {
            let mut cargs: Vec<Ty> = args.iter().map(norm).collect();
            let (h, all) = match norm(f) {
                Ty::App(f2, mut a2) => {
                    a2.append(&mut cargs);
                    (*f2, a2)
                }
                cf => (cf, cargs),
            };
            if h == Ty::FunCon && all.len() == 2 {
                Ty::Fun(false, Box::new(all[0].clone()), Box::new(all[1].clone()))
            } else if all.is_empty() {
                h
            } else {
                Ty::App(Box::new(h), all)
            }
        }
        Ty::Forall(vs, t) => Ty::Forall(vs.clone(), Box::new(norm(t))),
        Ty::Record(tfs, fs, r) => Ty::Record(tfs.iter().map(|(n, p, t)| (n.clone(), p.clone(), norm(t))).collect(), fs.iter().map(|(n, t)| (n.clone(), norm(t))).collect(), opt(r)),
        Ty::Variant(cs, r) => Ty::Variant(
            cs.iter()
                .map(|(n, c)| {
                    (
                        n.clone(),
                        match c {
                            Ctor::Simple(ts) => Ctor::Simple(ts.iter().map(norm).collect()),
                            Ctor::Gadt(t) => Ctor::Gadt(norm(t)),
                        },
                    )
                })
                .collect(),
            opt(r),
        ),
        Ty::Tuple(ts) => Ty::Tuple(ts.iter().map(norm).collect()),
        Ty::Effect(fs, r) => Ty::Effect(fs.iter().map(|(n, t)| (n.clone(), norm(t))).collect(), opt(r)),
    }
}

// ---------------------------------------------------------------------------------------------
// real printer / tokenizer / parser
// ---------------------------------------------------------------------------------------------
const WIDTHS_QUICK: &[usize] = &[20, 40, 80, 120, 200];
const WIDTHS_THOROUGH: &[usize] = &[20, 30, 40, 60, 80, 100, 120, 160, 200];
static THOROUGH: std::sync::atomic::AtomicBool = std::sync::atomic::AtomicBool::new(false);
fn widths() -> &'static [usize] {
    if THOROUGH.load(std::sync::atomic::Ordering::Relaxed) { WIDTHS_THOROUGH } else { WIDTHS_QUICK }
}

fn print_at(t: &ArcType, w: Option<usize>) -> String {
    match w {
        None => format!("{}", t),
        Some(w) => format!("{}", TypeFormatter::new(t).width(w)),
    }
}

/// Tokens of a printed type.  `gluon_parser::verif::tokens` cannot be used (the tokenizer yields
/// `EOF` for ever and the hook does not stop on it), so the type-level token classes of
/// parser/src/token.rs are re-implemented here: single-character brackets and comma, maximal
/// runs of operator characters (`is_operator_byte`), identifiers.  The same text is fed to the
/// real parser, so a mistake here shows up as a model/real parser disagreement.
fn tokens(text: &str) -> Result<Vec<String>, String> {
    let b = text.as_bytes();
    let mut i = 0;
    let mut out = vec![];
    while i < b.len() {
        let c = b[i];
        if c == b' ' || c == b'\n' || c == b'\t' || c == b'\r' {
            i += 1;
        } else if b"()[]{},".contains(&c) {
            out.push((c as char).to_string());
            i += 1;
        } else if gluon_base::ast::is_operator_byte(c) {
            let s = i;
            while i < b.len() && gluon_base::ast::is_operator_byte(b[i]) {
                i += 1;
            }
            out.push(text[s..i].to_string());
        } else if c.is_ascii_alphabetic() || c == b'_' {
            let s = i;
            while i < b.len() && (b[i].is_ascii_alphanumeric() || b[i] == b'_' || b[i] == b'\'') {
                i += 1;
            }
            out.push(text[s..i].to_string());
        } else {
            return Err(format!("lex-error at byte {} ({:?})", i, c as char));
        }
    }
    Ok(out)
}

fn indent(text: &str, by: usize) -> String {
    let pad = " ".repeat(by);
    let mut out = String::new();
    for (i, l) in text.split('\n').enumerate() {
        if i > 0 {
            out.push('\n');
            out.push_str(&pad);
        }
        out.push_str(l);
    }
    out
}

#[derive(Clone, Copy, PartialEq, Debug)]
enum Ctx {
    Let,
    TypeBind,
}

fn source(ctx: Ctx, printed: &str) -> String {
    match ctx {
        Ctx::Let => format!("let _ : {} = ()\n()\n", indent(printed, 8)),
        Ctx::TypeBind => format!("type T = {}\n()\n", indent(printed, 8)),
    }
}

/// Parse `src` with the real parser and return the canonical form of the type annotation /
/// type binding body, or the error text.
fn parse_real(ctx: Ctx, src: &str) -> Result<Ty, String> {
    let mut symbols = Symbols::new();
    mk_ast_arena!(arena);
    let r = gluon_parser::parse_expr((*arena).borrow(), &mut SymbolModule::new("c18".into(), &mut symbols), &TypeCache::default(), src);
    match r {
        Err(e) => Err(format!("{}", e).lines().next().unwrap_or("").to_string()),
        Ok(expr) => find_type(ctx, &expr),
    }
}
fn find_type(ctx: Ctx, e: &SpannedExpr<Symbol>) -> Result<Ty, String> {
    match (&e.value, ctx) {
        (Expr::LetBindings(bs, _), Ctx::Let) => match bs.into_iter().next().and_then(|b| b.typ.as_ref()) {
            Some(t) => Ok(canon(t)),
            None => Err("no type annotation in the parsed binding".into()),
        },
        (Expr::TypeBindings(bs, _), Ctx::TypeBind) => match bs.first() {
            Some(b) => Ok(canon(b.alias.value.unresolved_type())),
            None => Err("no type binding".into()),
        },
        (other, _) => Err(format!("unexpected expression {}", other.kind())),
    }
}

// ---------------------------------------------------------------------------------------------
fn probe() {
    let id = |s: &str| Ty::Id(s.to_string());
    let f = |a: Ty, b: Ty| Ty::Fun(false, Box::new(a), Box::new(b));
    let fi = |a: Ty, b: Ty| Ty::Fun(true, Box::new(a), Box::new(b));
    let app = |h: Ty, a: Vec<Ty>| Ty::App(Box::new(h), a);
    let fa = |v: &[&str], t: Ty| Ty::Forall(v.iter().map(|s| s.to_string()).collect(), Box::new(t));
    let rec = |fs: Vec<(&str, Ty)>, r: Option<Ty>| Ty::Record(vec![], fs.into_iter().map(|(n, t)| (n.to_string(), t)).collect(), r.map(Box::new));
    let var = |cs: Vec<(&str, Vec<Ty>)>, r: Option<Ty>| Ty::Variant(cs.into_iter().map(|(n, t)| (n.to_string(), Ctor::Simple(t))).collect(), r.map(Box::new));
    let cases: Vec<Ty> = vec![
        id("Int"),
        f(id("Int"), id("a")),
        f(f(id("Int"), id("a")), id("b")),
        fi(app(id("Eq"), vec![id("a")]), f(id("a"), id("Bool"))),
        fi(f(id("a"), id("b")), id("c")),
        f(fi(id("a"), id("b")), id("c")),
        app(id("Option"), vec![f(id("a"), id("b")), app(id("List"), vec![id("a")])]),
        app(app(id("F"), vec![id("a")]), vec![id("b")]),
        app(f(id("a"), id("b")), vec![id("c")]),
        fa(&["a", "b"], f(id("a"), id("b"))),
        f(fa(&["a"], id("a")), id("Int")),
        f(id("Int"), fa(&["a"], id("a"))),
        app(id("F"), vec![fa(&["a"], id("a"))]),
        fa(&["a"], fa(&["b"], id("a"))),
        rec(vec![("x", id("Int")), ("+", f(id("Int"), id("Int")))], None),
        rec(vec![("x", id("Int"))], Some(id("r"))),
        rec(vec![], Some(id("r"))),
        Ty::Record(vec![("Test".into(), vec!["a".into()], f(id("a"), id("String")))], vec![("x".into(), id("Int"))], None),
        Ty::Record(vec![("Test".into(), vec![], id("Int"))], vec![], Some(Box::new(id("r")))),
        Ty::Tuple(vec![]),
        Ty::Tuple(vec![id("Int")]),
        Ty::Tuple(vec![id("Int"), f(id("a"), id("b"))]),
        app(id("Array"), vec![id("Int")]),
        Ty::FunCon,
        app(Ty::FunCon, vec![id("a")]),
        app(Ty::FunCon, vec![id("a"), id("b")]),
        app(Ty::FunCon, vec![id("a"), id("b"), id("c")]),
        var(vec![("A", vec![id("Int")]), ("B", vec![])], None),
        var(vec![("A", vec![f(id("a"), id("b")), app(id("F"), vec![id("a")])])], None),
        var(vec![("A", vec![])], Some(id("r"))),
        var(vec![], Some(id("r"))),
        var(vec![], None),
        Ty::Variant(vec![("A".into(), Ctor::Gadt(f(id("Int"), app(id("T"), vec![id("Int")]))))], None),
        f(var(vec![("A", vec![]), ("B", vec![])], None), id("Int")),
        f(id("Int"), var(vec![("A", vec![]), ("B", vec![])], None)),
        app(id("F"), vec![var(vec![("A", vec![]), ("B", vec![])], None)]),
        rec(vec![("x", var(vec![("A", vec![]), ("B", vec![])], None))], None),
        fa(&["a"], var(vec![("A", vec![id("a")])], None)),
        Ty::Effect(vec![("st".into(), app(id("State"), vec![id("s")]))], Some(Box::new(id("r")))),
        Ty::Effect(vec![], None),
        Ty::Effect(vec![], Some(Box::new(id("r")))),
        app(Ty::Effect(vec![("st".into(), id("S"))], Some(Box::new(id("r")))), vec![id("a")]),
        app(id("Eff"), vec![Ty::Effect(vec![("st".into(), id("S"))], Some(Box::new(id("r")))), id("a")]),
        rec(vec![("x", rec(vec![("y", id("Int"))], None))], None),
        app(rec(vec![("x", id("Int"))], None), vec![id("a")]),
        id("_"),
    ];
    let mut sy = Symbols::new();
    for t in &cases {
        let arc = to_arc(t, &mut sy);
        println!("== {}", sx(t));
        println!("   canon(arc) {}", if canon(&arc) == *t { "same".to_string() } else { sx(&canon(&arc)) });
        let mut seen = std::collections::BTreeSet::new();
        for w in std::iter::once(None).chain(widths().iter().map(|w| Some(*w))) {
            let p = print_at(&arc, w);
            if !seen.insert(p.clone()) {
                continue;
            }
            println!("   w={:?}: {:?}", w, p);
            println!("      tokens {:?}", tokens(&p).map(|v| v.join(" ")));
            for ctx in [Ctx::Let, Ctx::TypeBind] {
                let r = parse_real(ctx, &source(ctx, &p));
                let verdict = match &r {
                    Ok(c) if *c == canon(&arc) => "ROUNDTRIP-OK".to_string(),
                    Ok(c) => format!("DIFFERENT {}", sx(c)),
                    Err(e) => format!("PARSE-ERROR {}", e),
                };
                println!("      {:?}: {}", ctx, verdict);
            }
        }
    }
}

fn probe_raw() {
    let mut sy = Symbols::new();
    let int: ArcType = Type::int();
    let f = |sy: &mut Symbols, n: &str, t: ArcType| Field::new(sy.simple_symbol(n), t);
    let inner = Type::extend_row(vec![f(&mut sy, "y", int.clone())], Type::empty_row());
    let split: ArcType = ArcType::from(Type::Record(Type::extend_row(vec![f(&mut sy, "x", int.clone())], inner.clone())));
    let r: ArcType = Type::generic(Generic::new(sy.simple_symbol("r"), Kind::hole()));
    let inner2 = Type::extend_row(vec![f(&mut sy, "y", int.clone()), f(&mut sy, "z", int.clone())], r.clone());
    let split2: ArcType = ArcType::from(Type::Record(Type::extend_row(vec![f(&mut sy, "x", int.clone()), f(&mut sy, "w", int.clone())], inner2)));
    let alias: ArcType = Type::alias(sy.simple_symbol("Test"), vec![], int.clone());
    let alias_app: ArcType = Type::app(alias.clone(), vec![int.clone()].into_iter().collect());
    let opt_tup: ArcType = ArcType::from(Type::Record(Type::extend_row(vec![f(&mut sy, "_0", int.clone()), f(&mut sy, "_1", int.clone())], r.clone())));
    for (n, t) in [("split-row", split), ("split-row-open", split2), ("alias", alias), ("alias-app", alias_app), ("open-tuple", opt_tup)] {
        let p = format!("{}", t);
        println!("== raw {}: {:?}", n, p);
        let r = parse_real(Ctx::Let, &source(Ctx::Let, &p));
        println!("   {}", match &r { Ok(c) if *c == canon(&t) => "ROUNDTRIP-OK".to_string(), Ok(c) => format!("DIFFERENT {} vs {}", sx(c), sx(&canon(&t))), Err(e) => format!("PARSE-ERROR {}", e) });
    }
}

// ---------------------------------------------------------------------------------------------
// s-expression reader (corpus / replay; names are spelled out)
// ---------------------------------------------------------------------------------------------
#[derive(Debug, Clone)]
enum Sx {
    A(String),
    L(Vec<Sx>),
}
fn read_sx(s: &str) -> Result<Sx, String> {
    fn item(b: &[u8], i: &mut usize) -> Result<Sx, String> {
        while *i < b.len() && b[*i] == b' ' {
            *i += 1;
        }
        if *i >= b.len() {
            return Err("eof".into());
        }
        if b[*i] == b'(' {
            *i += 1;
            let mut v = vec![];
            loop {
                while *i < b.len() && b[*i] == b' ' {
                    *i += 1;
                }
                if *i >= b.len() {
                    return Err("missing )".into());
                }
                if b[*i] == b')' {
                    *i += 1;
                    return Ok(Sx::L(v));
                }
                v.push(item(b, i)?);
            }
        }
        let st = *i;
        while *i < b.len() && b[*i] != b' ' && b[*i] != b'(' && b[*i] != b')' {
            *i += 1;
        }
        Ok(Sx::A(String::from_utf8_lossy(&b[st..*i]).to_string()))
    }
    let mut i = 0;
    item(s.as_bytes(), &mut i)
}
fn ty_of_sx(x: &Sx) -> Result<Ty, String> {
    let atom = |x: &Sx| match x {
        Sx::A(s) => Ok(s.clone()),
        _ => Err("atom expected".to_string()),
    };
    let list = |x: &Sx| match x {
        Sx::L(v) => Ok(v.clone()),
        _ => Err("list expected".to_string()),
    };
    let names = |x: &Sx| -> Result<Vec<String>, String> { list(x)?.iter().map(|a| atom(a)).collect() };
    let tys = |x: &Sx| -> Result<Vec<Ty>, String> { list(x)?.iter().map(ty_of_sx).collect() };
    let rest = |x: &Sx| -> Result<Option<Box<Ty>>, String> {
        match x {
            Sx::A(s) if s == "none" => Ok(None),
            Sx::L(v) if v.len() == 2 => Ok(Some(Box::new(ty_of_sx(&v[1])?))),
            _ => Err("rest".into()),
        }
    };
    let fields = |x: &Sx| -> Result<Vec<(String, Ty)>, String> {
        list(x)?
            .iter()
            .map(|f| {
                let f = list(f)?;
                if f.len() != 3 {
                    return Err("field".to_string());
                }
                Ok((atom(&f[1])?, ty_of_sx(&f[2])?))
            })
            .collect()
    };
    let v = list(x)?;
    let head = atom(v.get(0).ok_or("empty")?)?;
    match (head.as_str(), v.len()) {
        ("id", 2) => Ok(Ty::Id(atom(&v[1])?)),
        ("funcon", 1) => Ok(Ty::FunCon),
        ("fun", 3) => Ok(Ty::Fun(false, Box::new(ty_of_sx(&v[1])?), Box::new(ty_of_sx(&v[2])?))),
        ("ifun", 3) => Ok(Ty::Fun(true, Box::new(ty_of_sx(&v[1])?), Box::new(ty_of_sx(&v[2])?))),
        ("app", 3) => Ok(Ty::App(Box::new(ty_of_sx(&v[1])?), tys(&v[2])?)),
        ("forall", 3) => Ok(Ty::Forall(names(&v[1])?, Box::new(ty_of_sx(&v[2])?))),
        ("record", 4) => {
            let tfs = list(&v[1])?
                .iter()
                .map(|f| {
                    let f = list(f)?;
                    if f.len() != 3 {
                        return Err("type field".to_string());
                    }
                    Ok((atom(&f[0])?, names(&f[1])?, ty_of_sx(&f[2])?))
                })
                .collect::<Result<Vec<_>, String>>()?;
            Ok(Ty::Record(tfs, fields(&v[2])?, rest(&v[3])?))
        }
        ("variant", 3) => {
            let cs = list(&v[1])?
                .iter()
                .map(|c| {
                    let c = list(c)?;
                    if c.len() != 3 {
                        return Err("ctor".to_string());
                    }
                    match atom(&c[0])?.as_str() {
                        "simple" => Ok((atom(&c[1])?, Ctor::Simple(tys(&c[2])?))),
                        "gadt" => Ok((atom(&c[1])?, Ctor::Gadt(ty_of_sx(&c[2])?))),
                        _ => Err("ctor kind".to_string()),
                    }
                })
                .collect::<Result<Vec<_>, String>>()?;
            Ok(Ty::Variant(cs, rest(&v[2])?))
        }
        ("tuple", 2) => Ok(Ty::Tuple(tys(&v[1])?)),
        ("effect", 3) => Ok(Ty::Effect(fields(&v[1])?, rest(&v[2])?)),
        _ => Err(format!("unknown type form {}", head)),
    }
}

// ---------------------------------------------------------------------------------------------
// names <-> numbers for the model protocol
// ---------------------------------------------------------------------------------------------
struct Names {
    map: std::collections::HashMap<String, usize>,
    next_even: usize,
    next_odd: usize,
}
impl Names {
    fn new() -> Names {
        let mut map = std::collections::HashMap::new();
        map.insert("_".to_string(), 0);
        Names { map, next_even: 2, next_odd: 1 }
    }
    /// Names with an initial uppercase letter are odd, all others even (TypeSyntax.v [upper]).
    fn get(&mut self, s: &str) -> usize {
        if let Some(k) = self.map.get(s) {
            return *k;
        }
        let up = s.starts_with(char::is_uppercase);
        let k = if up {
            self.next_odd += 2;
            self.next_odd - 2
        } else {
            self.next_even += 2;
            self.next_even - 2
        };
        self.map.insert(s.to_string(), k);
        k
    }
    /// the numeric rendering of a type for the model driver
    fn num(&mut self, t: &Ty) -> Ty {
        let mut f = |s: &String, me: &mut Names| me.get(s).to_string();
        fn go(t: &Ty, me: &mut Names, f: &mut dyn FnMut(&String, &mut Names) -> String) -> Ty {
            let opt = |r: &Option<Box<Ty>>, me: &mut Names, f: &mut dyn FnMut(&String, &mut Names) -> String| r.as_ref().map(|t| Box::new(go(t, me, f)));
            match t {
                Ty::Id(n) => Ty::Id(f(n, me)),
                Ty::FunCon => Ty::FunCon,
                Ty::Other(s) => Ty::Other(s.clone()),
                Ty::Fun(i, a, r) => Ty::Fun(*i, Box::new(go(a, me, f)), Box::new(go(r, me, f))),
                Ty::App(h, args) => Ty::App(Box::new(go(h, me, f)), args.iter().map(|a| go(a, me, f)).collect()),
                Ty::Forall(vs, t) => Ty::Forall(vs.iter().map(|v| f(v, me)).collect(), Box::new(go(t, me, f))),
                Ty::Record(tfs, fs, r) => Ty::Record(
                    tfs.iter().map(|(n, ps, t)| (f(n, me), ps.iter().map(|p| f(p, me)).collect(), go(t, me, f))).collect(),
                    fs.iter().map(|(n, t)| (opname(n, me, f), go(t, me, f))).collect(),
                    opt(r, me, f),
                ),
                Ty::Variant(cs, r) => Ty::Variant(
                    cs.iter()
                        .map(|(n, c)| {
                            (
                                f(n, me),
                                match c {
                                    Ctor::Simple(ts) => Ctor::Simple(ts.iter().map(|a| go(a, me, f)).collect()),
                                    Ctor::Gadt(t) => Ctor::Gadt(go(t, me, f)),
                                },
                            )
                        })
                        .collect(),
                    opt(r, me, f),
                ),
                Ty::Tuple(ts) => Ty::Tuple(ts.iter().map(|a| go(a, me, f)).collect()),
                Ty::Effect(fs, r) => Ty::Effect(fs.iter().map(|(n, t)| (opname(n, me, f), go(t, me, f))).collect(), opt(r, me, f)),
            }
        }
        // operator field names keep a leading `+` so that `sexp` still renders them as (op N ..)
        fn opname(n: &String, me: &mut Names, f: &mut dyn FnMut(&String, &mut Names) -> String) -> String {
            if is_op_name(n) { format!("+{}", f(n, me)) } else { f(n, me) }
        }
        go(t, self, &mut f)
    }
    fn tok(&mut self, s: &str) -> String {
        match s {
            "(" => "lp".into(),
            ")" => "rp".into(),
            "[" => "lb".into(),
            "]" => "rb".into(),
            "{" => "lc".into(),
            "}" => "rc".into(),
            "," => "comma".into(),
            ":" => "colon".into(),
            "=" => "eq".into(),
            "|" => "pipe".into(),
            "." => "dot".into(),
            ".." => "dotdot".into(),
            "->" => "arrow".into(),
            "forall" => "forall".into(),
            _ if is_op_name(s) => format!("o{}", self.get(s)),
            _ => format!("i{}", self.get(s)),
        }
    }
}
/// numeric s-expression (operator field names were marked with a leading `+` by `Names::num`)
fn sx_num(t: &Ty) -> String {
    sx(t).replace("(op +", "(op ")
}

/// Is a parsed type inside the modelled fragment?
fn in_fragment(t: &Ty) -> bool {
    let name_ok = |n: &String| !n.is_empty() && !is_op_name(n) && !n.contains('.');
    let opt = |r: &Option<Box<Ty>>| r.as_ref().map(|t| in_fragment(t)).unwrap_or(true);
    match t {
        Ty::Id(n) => name_ok(n),
        Ty::FunCon => true,
        Ty::Other(_) => false,
        Ty::Fun(_, a, r) => in_fragment(a) && in_fragment(r),
        Ty::App(f, args) => in_fragment(f) && args.iter().all(in_fragment),
        Ty::Forall(vs, t) => vs.iter().all(name_ok) && in_fragment(t),
        Ty::Record(tfs, fs, r) => tfs.iter().all(|x| name_ok(&x.0) && x.1.iter().all(name_ok) && in_fragment(&x.2)) && fs.iter().all(|x| in_fragment(&x.1)) && opt(r),
        Ty::Variant(cs, r) => {
            cs.iter().all(|(n, c)| {
                name_ok(n)
                    && match c {
                        Ctor::Simple(ts) => ts.iter().all(in_fragment),
                        Ctor::Gadt(t) => in_fragment(t),
                    }
            }) && opt(r)
        }
        Ty::Tuple(ts) => ts.iter().all(in_fragment),
        Ty::Effect(fs, r) => fs.iter().all(|x| in_fragment(&x.1)) && opt(r),
    }
}

// ---------------------------------------------------------------------------------------------
// classification of an input type (syntactic, on the input only)
// ---------------------------------------------------------------------------------------------
/// "plain" = in the normal form of TypeSyntaxProofs.v ([nf] / [vnf]); the other classes are the
/// shapes outside it, each named after the reason.
fn class_of(t: &Ty) -> &'static str {
    fn atomic(t: &Ty) -> bool {
        matches!(t, Ty::Id(_) | Ty::FunCon | Ty::Tuple(_) | Ty::Effect(..)) || matches!(t, Ty::Record(..))
    }
    fn walk(t: &Ty, root: bool, out: &mut Vec<&'static str>) {
        let opt = |r: &Option<Box<Ty>>, out: &mut Vec<&'static str>| {
            if let Some(t) = r {
                walk(t, false, out)
            }
        };
        match t {
            Ty::Id(_) | Ty::FunCon => {}
            Ty::Other(_) => out.push("outside-fragment"),
            Ty::Fun(_, a, r) => {
                walk(a, false, out);
                walk(r, false, out)
            }
            Ty::App(f, args) => {
                if !atomic(f) {
                    out.push("app-head-not-atomic");
                }
                if args.is_empty() {
                    out.push("app-without-arguments");
                }
                if matches!(**f, Ty::FunCon) && args.len() == 2 {
                    out.push("function-as-application");
                }
                walk(f, false, out);
                args.iter().for_each(|a| walk(a, false, out))
            }
            Ty::Forall(vs, t) => {
                if vs.is_empty() {
                    out.push("forall-without-binders");
                }
                walk(t, false, out)
            }
            Ty::Record(tfs, fs, r) => {
                if tfs.is_empty() && fs.is_empty() {
                    out.push(if r.is_some() { "open-empty-record" } else { "unit-as-record" });
                }
                tfs.iter().for_each(|x| walk(&x.2, false, out));
                fs.iter().for_each(|x| walk(&x.1, false, out));
                opt(r, out)
            }
            Ty::Variant(cs, r) => {
                if !root {
                    out.push("variant-below-root");
                }
                if cs.is_empty() && r.is_none() {
                    out.push("empty-variant");
                }
                if let Some(r) = r {
                    if !atomic(r) {
                        out.push("variant-tail-not-atomic");
                    }
                }
                for (_, c) in cs {
                    match c {
                        Ctor::Simple(ts) => ts.iter().for_each(|a| walk(a, false, out)),
                        Ctor::Gadt(t) => {
                            let mut cur = t;
                            while let Ty::Fun(imp, _, r) = cur {
                                if *imp {
                                    out.push("gadt-implicit-argument");
                                }
                                cur = r;
                            }
                            walk(t, false, out)
                        }
                    }
                }
                opt(r, out)
            }
            Ty::Tuple(ts) => {
                if ts.len() == 1 {
                    out.push("singleton-tuple");
                }
                ts.iter().for_each(|a| walk(a, false, out))
            }
            Ty::Effect(fs, r) => {
                fs.iter().for_each(|x| walk(&x.1, false, out));
                opt(r, out)
            }
        }
    }
    let mut v = vec![];
    walk(t, true, &mut v);
    v.sort();
    v.first().copied().unwrap_or("plain")
}

// ---------------------------------------------------------------------------------------------
// generators
// ---------------------------------------------------------------------------------------------
fn id(s: &str) -> Ty {
    Ty::Id(s.to_string())
}
fn bx(t: &Ty) -> Box<Ty> {
    Box::new(t.clone())
}

/// All lists of `k` types with total size `n` (k >= 1), from `by_size[1..]`.
fn lists(by_size: &[Vec<Ty>], k: usize, n: usize, max: usize) -> Vec<Vec<Ty>> {
    if k == 0 {
        return if n == 0 { vec![vec![]] } else { vec![] };
    }
    let mut out = vec![];
    for s in 1..=n {
        if s >= by_size.len() || n - s < k - 1 {
            continue;
        }
        for rest in lists(by_size, k - 1, n - s, max) {
            for t in &by_size[s] {
                let mut v = vec![t.clone()];
                v.extend(rest.iter().cloned());
                out.push(v);
                if out.len() >= max {
                    return out;
                }
            }
        }
    }
    out
}

/// Exhaustive enumeration of the variant-free normal-form types of each size <= maxsize over a
/// small alphabet.  by_size[n] = all types of size n.
fn enumerate(maxsize: usize) -> Vec<Vec<Ty>> {
    let mut by: Vec<Vec<Ty>> = vec![vec![], vec![id("Int"), id("a"), Ty::Tuple(vec![])]];
    let heads = [id("F"), id("a")];
    let r = || Some(Box::new(id("r")));
    for n in 2..=maxsize {
        let mut cur: Vec<Ty> = vec![];
        // functions
        for n1 in 1..=(n - 2) {
            let n2 = n - 1 - n1;
            for a in &by[n1] {
                for b in &by[n2] {
                    cur.push(Ty::Fun(false, bx(a), bx(b)));
                    cur.push(Ty::Fun(true, bx(a), bx(b)));
                }
            }
        }
        // applications: head (size 1) + k arguments
        for k in 1..=3 {
            if n < 2 + k {
                continue;
            }
            for args in lists(&by, k, n - 2, usize::MAX) {
                for h in &heads {
                    cur.push(Ty::App(bx(h), args.clone()));
                }
            }
        }
        // forall
        for t in &by[n - 1] {
            cur.push(Ty::Forall(vec!["a".into()], bx(t)));
        }
        if n >= 3 {
            for t in &by[n - 2] {
                cur.push(Ty::Forall(vec!["a".into(), "b".into()], bx(t)));
            }
        }
        // records: one field, closed / open; operator field; type field; two fields
        for t in &by[n - 1] {
            cur.push(Ty::Record(vec![], vec![("x".into(), t.clone())], None));
            cur.push(Ty::Record(vec![], vec![("+".into(), t.clone())], None));
            cur.push(Ty::Record(vec![("Test".into(), vec!["a".into()], t.clone())], vec![], None));
            cur.push(Ty::Effect(vec![("st".into(), t.clone())], None));
        }
        if n >= 3 {
            for t in &by[n - 2] {
                cur.push(Ty::Record(vec![], vec![("x".into(), t.clone())], r()));
                cur.push(Ty::Record(vec![("Test".into(), vec![], t.clone())], vec![], r()));
                cur.push(Ty::Effect(vec![("st".into(), t.clone())], r()));
            }
            for fs in lists(&by, 2, n - 1, usize::MAX) {
                cur.push(Ty::Record(vec![], vec![("x".into(), fs[0].clone()), ("+".into(), fs[1].clone())], None));
                cur.push(Ty::Record(vec![("Test".into(), vec!["a".into()], fs[0].clone())], vec![("y".into(), fs[1].clone())], None));
                cur.push(Ty::Tuple(fs.clone()));
            }
        }
        if n >= 4 {
            for fs in lists(&by, 3, n - 1, usize::MAX) {
                cur.push(Ty::Tuple(fs.clone()));
            }
            for fs in lists(&by, 2, n - 2, usize::MAX) {
                cur.push(Ty::Record(vec![("Test".into(), vec![], fs[0].clone())], vec![("y".into(), fs[1].clone())], r()));
            }
        }
        by.push(cur);
    }
    by
}

/// Root variants (the body of a type declaration) whose constructor arguments / GADT types are
/// drawn from the enumerated variant-free types.
fn enumerate_variants(by: &[Vec<Ty>], maxsize: usize) -> Vec<Ty> {
    let mut out = vec![];
    let r = || Some(Box::new(id("r")));
    for n in 2..=maxsize {
        // one constructor with k arguments
        for k in 0..=3usize {
            if n < 2 + k {
                continue;
            }
            for args in lists(by, k, n - 2, usize::MAX) {
                if k == 0 && n != 2 {
                    continue;
                }
                out.push(Ty::Variant(vec![("A".into(), Ctor::Simple(args.clone()))], None));
                if n + 1 <= maxsize {
                    out.push(Ty::Variant(vec![("A".into(), Ctor::Simple(args.clone()))], r()));
                    out.push(Ty::Variant(vec![("A".into(), Ctor::Simple(args.clone())), ("B".into(), Ctor::Simple(vec![]))], None));
                    out.push(Ty::Variant(vec![("B".into(), Ctor::Simple(vec![])), ("A".into(), Ctor::Simple(args.clone()))], None));
                }
            }
        }
        // GADT constructor
        if n >= 3 {
            for t in &by[n - 2] {
                out.push(Ty::Variant(vec![("A".into(), Ctor::Gadt(t.clone()))], None));
                if n + 1 <= maxsize {
                    out.push(Ty::Variant(vec![("A".into(), Ctor::Gadt(t.clone())), ("B".into(), Ctor::Simple(vec![id("Int")]))], None));
                    out.push(Ty::Variant(vec![("B".into(), Ctor::Simple(vec![id("Int")])), ("A".into(), Ctor::Gadt(t.clone()))], r()));
                }
            }
        }
        // two constructors with arguments
        if n >= 5 {
            for args in lists(by, 2, n - 3, usize::MAX) {
                out.push(Ty::Variant(vec![("A".into(), Ctor::Simple(vec![args[0].clone()])), ("B".into(), Ctor::Simple(vec![args[1].clone()]))], None));
            }
        }
    }
    out.push(Ty::Variant(vec![], r()));
    out
}

const UPPER: &[&str] = &["Int", "String", "Float", "Bool", "Option", "Result", "Map", "List", "F", "Test", "IO", "Array", "Eff", "State", "VeryLongTypeConstructorName", "AnotherQuiteLongTypeName"];
const LOWER: &[&str] = &["a", "b", "c", "r", "s", "elem", "key", "a_rather_long_type_variable", "value'"];
const FIELDS: &[&str] = &["x", "y", "name", "value", "+", "<|>", ">>=", "a_long_record_field_name", "flat_map", "=="];
const CTORS: &[&str] = &["A", "B", "Cons", "Nil", "Some", "None", "AVeryLongConstructorName"];

struct Gen<'a> {
    rng: &'a mut Rng,
}
impl<'a> Gen<'a> {
    fn atom(&mut self) -> Ty {
        match self.rng.below(12) {
            0..=4 => id(*self.rng.pick(UPPER)),
            5..=8 => id(*self.rng.pick(LOWER)),
            9 => Ty::Tuple(vec![]),
            10 => Ty::Effect(vec![], None),
            _ => id("_"),
        }
    }
    fn head(&mut self, budget: usize) -> Ty {
        match self.rng.below(12) {
            0..=5 => id(*self.rng.pick(UPPER)),
            6..=7 => id(*self.rng.pick(LOWER)),
            8 => Ty::FunCon,
            9 if budget >= 3 => self.effect(budget),
            10 if budget >= 3 => self.record(budget),
            _ => id(*self.rng.pick(UPPER)),
        }
    }
    fn split(&mut self, budget: usize, k: usize) -> Vec<usize> {
        // k positive parts summing to at most budget
        let mut parts = vec![1; k];
        let mut left = budget.saturating_sub(k);
        while left > 0 {
            let i = self.rng.below(k as u64) as usize;
            parts[i] += 1;
            left -= 1;
        }
        parts
    }
    fn rest(&mut self) -> Option<Box<Ty>> {
        if self.rng.chance(1, 3) { Some(Box::new(id(*self.rng.pick(LOWER)))) } else { None }
    }
    fn fields(&mut self, budget: usize) -> Vec<(String, Ty)> {
        let k = 1 + self.rng.below(3.min(budget as u64)) as usize;
        let parts = self.split(budget, k);
        let mut names: Vec<&str> = vec![];
        let mut out = vec![];
        for p in parts {
            let mut n = *self.rng.pick(FIELDS);
            let mut guard = 0;
            while names.contains(&n) && guard < 20 {
                n = *self.rng.pick(FIELDS);
                guard += 1;
            }
            names.push(n);
            out.push((n.to_string(), self.ty(p)));
        }
        out
    }
    fn record(&mut self, budget: usize) -> Ty {
        let with_types = self.rng.chance(1, 3);
        let mut tfs = vec![];
        let mut b = budget.saturating_sub(1).max(1);
        if with_types {
            let nt = 1 + self.rng.below(2) as usize;
            for i in 0..nt {
                let sz = 1 + self.rng.below((b / 2).max(1) as u64) as usize;
                b = b.saturating_sub(sz).max(1);
                let np = self.rng.below(3) as usize;
                let ps = LOWER[..np].iter().map(|s| s.to_string()).collect();
                tfs.push(([ "Test", "Elem", "Key" ][i].to_string(), ps, self.ty(sz)));
            }
        }
        let fs = if with_types && self.rng.chance(1, 3) { vec![] } else { self.fields(b) };
        Ty::Record(tfs, fs, self.rest())
    }
    fn effect(&mut self, budget: usize) -> Ty {
        let fs = if self.rng.chance(1, 6) {
            vec![]
        } else {
            self.fields(budget.saturating_sub(1).max(1)).into_iter().filter(|(n, _)| !is_op_name(n)).collect()
        };
        Ty::Effect(fs, self.rest())
    }
    /// variant-free normal-form type of size about `budget`
    fn ty(&mut self, budget: usize) -> Ty {
        if budget <= 1 {
            return self.atom();
        }
        match self.rng.below(16) {
            0..=3 => {
                let parts = self.split(budget - 1, 2);
                let imp = self.rng.chance(1, 4);
                Ty::Fun(imp, Box::new(self.ty(parts[0])), Box::new(self.ty(parts[1])))
            }
            4..=7 => {
                let k = 1 + self.rng.below(3.min((budget - 1) as u64)) as usize;
                let parts = self.split(budget - 1, k);
                let h = self.head(budget);
                let args: Vec<Ty> = parts.into_iter().map(|p| self.ty(p)).collect();
                if matches!(h, Ty::FunCon) && args.len() == 2 {
                    // `(->) a b` is the same type as `a -> b` and is printed as such (as_function)
                    return Ty::Fun(false, Box::new(args[0].clone()), Box::new(args[1].clone()));
                }
                Ty::App(Box::new(h), args)
            }
            8..=9 => {
                let nv = 1 + self.rng.below(3) as usize;
                Ty::Forall(LOWER[..nv].iter().map(|s| s.to_string()).collect(), Box::new(self.ty(budget - 1)))
            }
            10..=12 => self.record(budget),
            13 => {
                let k = 2 + self.rng.below(2.min((budget.saturating_sub(2)).max(1) as u64)) as usize;
                let parts = self.split((budget - 1).max(k), k);
                Ty::Tuple(parts.into_iter().map(|p| self.ty(p)).collect())
            }
            14 => self.effect(budget),
            _ => self.atom(),
        }
    }
    fn variant(&mut self, budget: usize) -> Ty {
        let k = 1 + self.rng.below(4) as usize;
        let parts = self.split(budget.max(k), k);
        let mut cs = vec![];
        for (i, p) in parts.into_iter().enumerate() {
            let n = if i < CTORS.len() { CTORS[(i + self.rng.below(3) as usize) % CTORS.len()] } else { "Z" };
            let n = format!("{}{}", n, if cs.iter().any(|(m, _): &(String, Ctor)| m == n) { i.to_string() } else { String::new() });
            if self.rng.chance(1, 4) {
                let mut t = self.ty(p);
                if !self.rng.chance(1, 10) {
                    // the grammar makes every argument of a GADT-style constructor explicit
                    fn explicit(t: &mut Ty) {
                        if let Ty::Fun(i, _, r) = t {
                            *i = false;
                            explicit(r);
                        }
                    }
                    explicit(&mut t);
                }
                cs.push((n, Ctor::Gadt(t)));
            } else {
                let na = self.rng.below(4.min(p as u64 + 1)) as usize;
                let args = if na == 0 { vec![] } else { self.split(p.max(na), na).into_iter().map(|q| self.ty(q)).collect() };
                cs.push((n, Ctor::Simple(args)));
            }
        }
        Ty::Variant(cs, self.rest())
    }
}

/// Classes on which the Coq model mirrors printer and parser (so tokens and parses are compared).
fn model_mirrors(class: &str) -> bool {
    class == "plain" || class == "variant-below-root" || class == "gadt-implicit-argument"
}

/// Hand-written members of the classes outside the normal form.  (Ill-kinded shapes -- an
/// application whose head is a function or a forall, a variant whose row tail is an application --
/// are outside the quantifier of the property and are not generated at all.)
fn defect_class_probes() -> Vec<Ty> {
    let f = |a: Ty, b: Ty| Ty::Fun(false, Box::new(a), Box::new(b));
    let app = |h: Ty, a: Vec<Ty>| Ty::App(Box::new(h), a);
    let rec = |fs: Vec<(&str, Ty)>, r: Option<Ty>| Ty::Record(vec![], fs.into_iter().map(|(n, t)| (n.to_string(), t)).collect(), r.map(Box::new));
    let var = |cs: Vec<(&str, Vec<Ty>)>, r: Option<Ty>| Ty::Variant(cs.into_iter().map(|(n, t)| (n.to_string(), Ctor::Simple(t))).collect(), r.map(Box::new));
    let ab = || var(vec![("A", vec![id("Int")]), ("B", vec![])], None);
    vec![
        // variant-below-root
        f(ab(), id("Int")),
        f(id("Int"), ab()),
        app(id("F"), vec![ab()]),
        rec(vec![("x", ab())], None),
        Ty::Forall(vec!["a".into()], Box::new(var(vec![("A", vec![id("a")])], None))),
        Ty::Tuple(vec![id("Int"), ab()]),
        Ty::Record(vec![("Test".into(), vec![], ab())], vec![], None),
        var(vec![("A", vec![ab()])], None),
        app(id("F"), vec![var(vec![], Some(id("r")))]),
        f(var(vec![], Some(id("r"))), id("Int")),
        Ty::Variant(vec![("A".into(), Ctor::Gadt(f(ab(), id("T"))))], None),
        // open-empty-record
        rec(vec![], Some(id("r"))),
        f(rec(vec![], Some(id("r"))), id("Int")),
        // singleton-tuple
        Ty::Tuple(vec![id("Int")]),
        app(id("F"), vec![Ty::Tuple(vec![f(id("a"), id("b"))])]),
        // empty-variant
        var(vec![], None),
        // equivalent spellings (these do read back, up to the equivalence)
        app(app(id("F"), vec![id("a")]), vec![id("b")]),
        app(Ty::FunCon, vec![id("a"), id("b")]),
        app(app(Ty::FunCon, vec![id("a")]), vec![id("b")]),
        rec(vec![], None),
    ]
}

// ---------------------------------------------------------------------------------------------
// one type through everything
// ---------------------------------------------------------------------------------------------
struct Out {
    model_in: std::io::BufWriter<std::fs::File>,
    impl_out: std::io::BufWriter<std::fs::File>,
    cases: std::io::BufWriter<std::fs::File>,
    roundtrip: std::io::BufWriter<std::fs::File>,
    names: Names,
    hist: Hist,
    distinct: std::collections::HashSet<u64>,
    lines: u64,
    evaluations: u64,
    nontrivial: u64,
    rt_fail: u64,
    samples: Vec<serde_json::Value>,
}

impl Out {
    fn case(&mut self, model: &str, imp: &str, human: &str) {
        writeln!(self.model_in, "{}", model).unwrap();
        writeln!(self.impl_out, "{}", imp).unwrap();
        writeln!(self.cases, "{}", human.replace('\n', "\\n")).unwrap();
        self.lines += 1;
    }
}

fn model_parse_line(names: &mut Names, ctx: Ctx, toks: &[String]) -> String {
    let mut s = String::from(if ctx == Ctx::Let { "parse let" } else { "parse top" });
    for t in toks {
        s.push(' ');
        s.push_str(&names.tok(t));
    }
    s
}
fn impl_parse_line(names: &mut Names, r: &Result<Ty, String>, hist: &mut Hist) -> String {
    match r {
        Ok(t) if in_fragment(t) => {
            hist.add("parse:accepted");
            format!("ok {}", sx_num(&names.num(t)))
        }
        Ok(_) => {
            hist.add("parse:accepted-outside-fragment");
            "reject".into()
        }
        Err(_) => {
            hist.add("parse:rejected");
            "reject".into()
        }
    }
}

/// `with_model`: compare the printer's tokens and the parsers with the model (classes the model
/// mirrors); otherwise only the property itself is evaluated on the implementation.
fn run_type(t: &Ty, family: &str, with_model: bool, mutants: usize, rng: &mut Rng, o: &mut Out) {
    let class = class_of(t);
    let mut sy = Symbols::new();
    let arc = to_arc(t, &mut sy);
    let expected = norm(&canon(&arc));
    let root_variant = matches!(t, Ty::Variant(..));
    o.hist.add(&format!("family:{}", family));
    o.hist.add(&format!("class:{}", class));
    o.hist.add(&format!("size:{}", size(t).min(20)));
    kinds(t, &mut o.hist);
    if size(t) >= 3 && o.distinct.insert(fnv(sx(t).as_bytes())) {
        o.nontrivial += 1;
    }

    // (1) the real printer at every width
    let mut renderings: Vec<(Option<usize>, String)> = vec![];
    let mut tok_sets: Vec<Vec<String>> = vec![];
    let mut lex_error = None;
    for w in std::iter::once(None).chain(widths().iter().map(|w| Some(*w))) {
        let p = std::panic::catch_unwind(std::panic::AssertUnwindSafe(|| print_at(&arc, w))).unwrap_or_else(|_| "<printer panicked>".to_string());
        match tokens(&p) {
            Ok(ts) => {
                if !tok_sets.contains(&ts) {
                    tok_sets.push(ts);
                }
            }
            Err(e) => lex_error = Some(e),
        }
        if p.contains('\n') {
            o.hist.add("rendering:multi-line");
        } else {
            o.hist.add("rendering:one-line");
        }
        if !renderings.iter().any(|(_, q)| *q == p) {
            renderings.push((w, p));
        }
    }
    if with_model {
        let imp = match (&lex_error, tok_sets.len()) {
            (Some(e), _) => format!("printer output does not lex: {}", e),
            (None, 1) => {
                let mut s = String::from("toks");
                for tk in &tok_sets[0] {
                    s.push(' ');
                    s.push_str(&o.names.tok(tk));
                }
                s
            }
            _ => format!("width-dependent tokens: {:?}", tok_sets),
        };
        let model = format!("print {}", sx_num(&o.names.num(t)));
        o.case(&model, &imp, &format!("print {}", sx(t)));
    }

    // (2) the property: every rendering reads back as an equivalent type
    let ctxs: &[Ctx] = if root_variant { &[Ctx::TypeBind] } else { &[Ctx::Let, Ctx::TypeBind] };
    let mut first = true;
    for (w, p) in &renderings {
        for ctx in ctxs {
            let src = source(*ctx, p);
            let r = parse_real(*ctx, &src);
            o.evaluations += 1;
            let ok = matches!(&r, Ok(c) if norm(c) == expected);
            o.hist.add(if ok { "roundtrip:ok" } else { "roundtrip:FAILED" });
            if !ok {
                o.rt_fail += 1;
                let observed = match &r {
                    Ok(c) => format!("parsed as {}", sx(c)),
                    Err(e) => format!("parse error: {}", e),
                };
                let key = if class == "plain" { format!("type-roundtrip:{}", sx(&expected)) } else { format!("type-roundtrip:{}:{}", class, sx(&expected)) };
                let v = serde_json::json!({
                    "key": key, "class": class, "type": sx(t), "canonical": sx(&expected), "printed": p,
                    "width": w.map(|w| w as i64).unwrap_or(-1), "ctx": format!("{:?}", ctx), "observed": observed, "family": family,
                });
                writeln!(o.roundtrip, "{}", v).unwrap();
            }
            // (3a) model parser vs real parser on the printed text (first rendering only: the
            // tokens are the same at every width)
            if with_model && first {
                if let Ok(ts) = tokens(p) {
                    let m = model_parse_line(&mut o.names, *ctx, &ts);
                    let i = impl_parse_line(&mut o.names, &r, &mut o.hist);
                    o.case(&m, &i, &format!("parse {:?} {}", ctx, p));
                }
            }
        }
        first = false;
    }
    if o.samples.len() < 6 && size(t) >= 4 && (o.lines % 7 == 0) {
        o.samples.push(serde_json::json!({"type": sx(t), "printed": renderings[0].1, "class": class}));
    }

    // (3b) one-token mutants of the printed token string
    if with_model && mutants > 0 && lex_error.is_none() && !tok_sets.is_empty() && !tok_sets[0].is_empty() {
        let base = &tok_sets[0];
        for _ in 0..mutants {
            let mut ts = base.clone();
            let i = rng.below(ts.len() as u64) as usize;
            let kind = if rng.chance(1, 2) {
                ts.remove(i);
                "delete"
            } else {
                let d = ts[i].clone();
                ts.insert(i, d);
                "duplicate"
            };
            if ts.is_empty() {
                continue;
            }
            let text = ts.join(" ");
            let ctx = if root_variant || rng.chance(1, 4) { Ctx::TypeBind } else { Ctx::Let };
            let r = parse_real(ctx, &source(ctx, &text));
            o.evaluations += 1;
            o.hist.add(&format!("mutant:{}", kind));
            let m = model_parse_line(&mut o.names, ctx, &ts);
            let i = impl_parse_line(&mut o.names, &r, &mut o.hist);
            o.case(&m, &i, &format!("parse {:?} {}", ctx, text));
        }
    }
}

// ---------------------------------------------------------------------------------------------
// vm/src/api/typ.rs make_source
// ---------------------------------------------------------------------------------------------
mod rust_types {
    use serde_derive::Deserialize;
    #[derive(Deserialize)]
    pub struct Address {
        pub street: String,
        pub city: String,
        pub number: i32,
    }
    #[derive(Deserialize)]
    pub struct Nested {
        pub name: String,
        pub address: Address,
        pub tags: Vec<String>,
        pub score: Option<f64>,
    }
    #[derive(Deserialize)]
    pub enum Shape {
        Circle(f64),
        Rect(f64, f64),
        Unit,
    }
    #[derive(Deserialize)]
    pub enum WithStruct {
        Named { width: i32, height: i32 },
        Other(String),
    }
    #[derive(Deserialize)]
    pub struct Pair(pub i32, pub String);
    #[derive(Deserialize)]
    pub struct Wrapper(pub i32);
    #[derive(Deserialize)]
    pub struct ManyFields {
        pub a_rather_long_field_name_number_one: String,
        pub a_rather_long_field_name_number_two: Vec<Option<String>>,
        pub a_rather_long_field_name_number_three: (i32, f64, String),
        pub a_rather_long_field_name_number_four: Option<Vec<(String, i32)>>,
    }
    #[derive(Deserialize)]
    pub struct HoldsEnum {
        pub shape: Shape,
        pub id: i32,
    }
}

fn make_source_cases(o: &mut Out) {
    use gluon_vm::api::typ::{from_rust, make_source};
    let vm = gluon::VmBuilder::new().build();
    let hook = std::panic::take_hook();
    std::panic::set_hook(Box::new(|_| {}));
    macro_rules! one {
        ($t:ty, $name:expr) => {{
            let r = std::panic::catch_unwind(std::panic::AssertUnwindSafe(|| (make_source::<$t>(&vm), from_rust::<$t>(&vm))));
            o.evaluations += 1;
            match r {
                Ok((Ok(src), Ok((_, typ)))) => {
                    let expected = norm(&canon(&typ));
                    let parsed = parse_real(Ctx::TypeBind, &src);
                    let ok = matches!(&parsed, Ok(c) if norm(c) == expected);
                    o.hist.add(if ok { "make_source:ok" } else { "make_source:FAILED" });
                    if !ok {
                        o.rt_fail += 1;
                        let observed = match &parsed {
                            Ok(c) => format!("parsed as {}", sx(c)),
                            Err(e) => format!("parse error: {}", e),
                        };
                        let v = serde_json::json!({
                            "key": format!("type-roundtrip:make_source:{}", $name), "class": "make_source", "type": sx(&expected), "canonical": sx(&expected),
                            "printed": src, "width": 80, "ctx": "make_source", "observed": observed, "family": "make_source",
                        });
                        writeln!(o.roundtrip, "{}", v).unwrap();
                    }
                }
                Ok((a, b)) => {
                    o.hist.add("make_source:unsupported-rust-type");
                    eprintln!("make_source {}: {:?} / {:?}", $name, a.err().map(|e| e.to_string()), b.err().map(|e| e.to_string()));
                }
                Err(_) => {
                    // from_rust panics (vm/src/api/typ.rs:486 `expect("typ")`) before any type is
                    // printed: nothing to read back; recorded in the input distribution only
                    o.hist.add("make_source:panicked-before-printing");
                    eprintln!("make_source {}: from_rust panicked", $name);
                }
            }
        }};
    }
    one!(rust_types::Address, "Address");
    one!(rust_types::Nested, "Nested");
    one!(rust_types::Shape, "Shape");
    one!(rust_types::WithStruct, "WithStruct");
    one!(rust_types::Pair, "Pair");
    one!(rust_types::Wrapper, "Wrapper");
    one!(rust_types::ManyFields, "ManyFields");
    one!(rust_types::HoldsEnum, "HoldsEnum");
    std::panic::set_hook(hook);
}

fn replay(path: &str) {
    let v: serde_json::Value = serde_json::from_str(&std::fs::read_to_string(path).expect("replay file")).expect("json");
    let case = &v["case"];
    let tsx = case["type"].as_str().expect("case.type");
    let t = match read_sx(tsx).and_then(|x| ty_of_sx(&x)) {
        Ok(t) => t,
        Err(e) => {
            println!("cannot read the type of the replay: {}", e);
            return;
        }
    };
    let mut sy = Symbols::new();
    let arc = to_arc(&t, &mut sy);
    let expected = norm(&canon(&arc));
    println!("type:      {}", sx(&t));
    println!("canonical: {}", sx(&expected));
    let w = case["width"].as_i64().unwrap_or(-1);
    let first: Vec<Option<usize>> = if w < 0 { vec![None] } else { vec![Some(w as usize)] };
    let mut failed = false;
    for w in first.into_iter().chain(std::iter::once(None)).chain(widths().iter().map(|w| Some(*w))) {
        let p = print_at(&arc, w);
        let ctxs: &[Ctx] = if matches!(t, Ty::Variant(..)) { &[Ctx::TypeBind] } else { &[Ctx::Let, Ctx::TypeBind] };
        for ctx in ctxs {
            let r = parse_real(*ctx, &source(*ctx, &p));
            let verdict = match &r {
                Ok(c) if norm(c) == expected => "reads back as the same type".to_string(),
                Ok(c) => {
                    failed = true;
                    format!("READS BACK AS A DIFFERENT TYPE {}", sx(c))
                }
                Err(e) => {
                    failed = true;
                    format!("DOES NOT PARSE: {}", e)
                }
            };
            println!("width {:?} in {:?}: {:?}\n    {}", w, ctx, p, verdict);
        }
    }
    println!("{}", if failed { "replay: the property FAILS on this type" } else { "replay: the property holds on this type" });
}

fn main() {
    let args = Args::parse();
    if args.rest.iter().any(|a| a == "probe") {
        probe();
        probe_raw();
        return;
    }
    if let Some(path) = &args.replay {
        replay(path);
        return;
    }
    let mut o = Out {
        model_in: args.file("model_in.txt"),
        impl_out: args.file("impl_out.txt"),
        cases: args.file("cases.txt"),
        roundtrip: args.file("roundtrip.jsonl"),
        names: Names::new(),
        hist: Hist::default(),
        distinct: Default::default(),
        lines: 0,
        evaluations: 0,
        nontrivial: 0,
        rt_fail: 0,
        samples: vec![],
    };
    let mut rng = Rng::new(args.seed);
    let thorough = args.thorough();
    THOROUGH.store(thorough, std::sync::atomic::Ordering::Relaxed);
    let get = |k: &str, d: usize| args.extra.get(k).and_then(|s| s.parse().ok()).unwrap_or(d);

    // Family 0: corpus (s-expressions, one per line; `#` comments)
    let corpus_dir = args.extra.get("corpus").cloned().unwrap_or_else(|| "/verif/corpus/C18".to_string());
    let mut corpus_n = 0;
    if let Ok(rd) = std::fs::read_dir(&corpus_dir) {
        let mut files: Vec<_> = rd.filter_map(|e| e.ok()).map(|e| e.path()).filter(|p| p.extension().map(|x| x == "sexp").unwrap_or(false)).collect();
        files.sort();
        for f in files {
            for line in std::fs::read_to_string(&f).unwrap_or_default().lines() {
                let line = line.trim();
                if line.is_empty() || line.starts_with('#') {
                    continue;
                }
                match read_sx(line).and_then(|x| ty_of_sx(&x)) {
                    Ok(t) => {
                        let c = class_of(&t);
                        run_type(&t, "corpus", model_mirrors(c), 2, &mut rng, &mut o);
                        corpus_n += 1;
                    }
                    Err(e) => panic!("corpus {}: {}: {}", f.display(), line, e),
                }
            }
        }
    }

    // Family 1: exhaustive, variant-free normal form
    let maxsize = get("maxsize", if thorough { 6 } else { 5 });
    let by = enumerate(maxsize);
    let mut exhaustive_n = 0u64;
    for n in 1..=maxsize {
        for (i, t) in by[n].iter().enumerate() {
            let mutants = if i % 4 == 0 { 1 } else { 0 };
            run_type(t, "exhaustive", true, mutants, &mut rng, &mut o);
            exhaustive_n += 1;
        }
    }
    // Family 2: exhaustive root variants (type declaration bodies)
    let vmax = get("vmaxsize", if thorough { 7 } else { 6 });
    let by_small = enumerate(vmax.saturating_sub(2).max(1).min(maxsize));
    let variants = enumerate_variants(&by_small, vmax);
    let variants_n = variants.len();
    for (i, t) in variants.iter().enumerate() {
        run_type(t, "exhaustive-variant", model_mirrors(class_of(t)), if i % 4 == 0 { 1 } else { 0 }, &mut rng, &mut o);
    }
    // Family 3: random, larger, long names (line breaks at the narrow widths)
    let nrand = get("random", if thorough { 250000 } else { 20000 });
    let maxrand = get("randsize", if thorough { 14 } else { 10 });
    for i in 0..nrand {
        let budget = 2 + rng.below(maxrand as u64 - 1) as usize;
        let t = {
            let mut g = Gen { rng: &mut rng };
            if i % 5 == 4 { g.variant(budget) } else { g.ty(budget) }
        };
        let c = class_of(&t);
        run_type(&t, "random", model_mirrors(c), 1, &mut rng, &mut o);
    }
    // Family 4: the shapes outside the normal form (property only; the model is compared where
    // it mirrors the printer on them)
    for t in defect_class_probes() {
        let c = class_of(&t);
        run_type(&t, "outside-normal-form", model_mirrors(c), 0, &mut rng, &mut o);
    }
    // Family 5: generated type declarations
    make_source_cases(&mut o);

    o.model_in.flush().unwrap();
    o.impl_out.flush().unwrap();
    o.cases.flush().unwrap();
    o.roundtrip.flush().unwrap();
    gvh::out::write_json(
        &args.out.join("stats.json"),
        &serde_json::json!({
            "evaluations": o.evaluations,
            "model_cases": o.lines,
            "distinct_nontrivial": o.nontrivial,
            "rule": "one evaluation = one (type, rendering, context) read back by the real parser, or one mutated token string parsed by both parsers; non-trivial = distinct types (by canonical s-expression) with at least 3 nodes",
            "exhaustive_maxsize": maxsize,
            "exhaustive_types": exhaustive_n,
            "exhaustive_variant_maxsize": vmax,
            "exhaustive_variants": variants_n,
            "random_types": nrand,
            "random_maxsize": maxrand,
            "corpus_types": corpus_n,
            "widths": widths(),
            "roundtrip_failures": o.rt_fail,
            "samples": o.samples,
            "hist": o.hist.to_json(),
        }),
    );
}
