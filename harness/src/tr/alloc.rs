//! vm/src/gc.rs: the memory-accounting arithmetic of `Gc` -> coq/gen/AllocGen.v.
//!
//! What is read (each from exactly one place; any other shape is a loud failure):
//!   Gc::new                  `allocated_memory: <lit>`, `collect_limit: <lit>`
//!   Gc::alloc_and_collect    calls `self.check_collect(..)` and then `self.alloc_owned(def)`
//!   Gc::alloc_owned          `let size = def.size();` `let needed = <e>;`
//!                            `if needed <cmp> self.memory_limit { return Err(Error::OutOfMemory{..}) }`
//!                            `Ok(self.alloc_ignore_limit_(size, def))`
//!   Gc::alloc_ignore_limit_  `let mut ptr = AllocPtr::new::<D::Value>(type_info, size);`
//!                            the only `self.allocated_memory <op>= <e>` of the function
//!   AllocPtr::size           body expression over `GcHeader::value_offset()` and `self.value_size`
//!   Gc::free                 the only `self.allocated_memory <op>= <e>`
//!   Gc::check_collect        the only `if` whose condition mentions `collect_limit`
//!   Gc::collect              the only assignment to `collect_limit`
//! and, over the whole file, that no other function assigns `allocated_memory` / `collect_limit`.
//! Expressions: variables of a per-function environment, `GcHeader::value_offset()` (-> `hdr`),
//! integer literals, `a.saturating_add(b)`, `+`, `*`, parentheses; comparisons `>= > <= < ==`.
use super::*;
use std::collections::BTreeMap;
use syn::visit::Visit;

const ITEM: &str = "AllocGen";

type Env = BTreeMap<&'static str, &'static str>;

fn e<T>(msg: impl Into<String>) -> Result<T, GenError> {
    err(ITEM, msg)
}

fn expr_n(x: &syn::Expr, env: &Env) -> Result<String, GenError> {
    let t = toks(x);
    if let Some(v) = env.get(t.as_str()) {
        return Ok(v.to_string());
    }
    match x {
        syn::Expr::Paren(p) => expr_n(&p.expr, env),
        syn::Expr::Group(p) => expr_n(&p.expr, env),
        syn::Expr::Lit(syn::ExprLit { lit: syn::Lit::Int(i), .. }) => {
            let v: u64 = i.base10_parse().map_err(|er| GenError { item: ITEM.into(), msg: er.to_string() })?;
            Ok(format!("{}", v))
        }
        syn::Expr::Call(c) if t == "GcHeader :: value_offset ()" && c.args.is_empty() => Ok("hdr".into()),
        syn::Expr::MethodCall(m) if m.method == "saturating_add" && m.args.len() == 1 => {
            Ok(format!("(sat_add {} {})", expr_n(&m.receiver, env)?, expr_n(&m.args[0], env)?))
        }
        syn::Expr::Binary(b) => {
            let op = match b.op {
                syn::BinOp::Add(_) => "+",
                syn::BinOp::Mul(_) => "*",
                _ => return e(format!("unsupported operator in `{}`", t)),
            };
            Ok(format!("({} {} {})", expr_n(&b.left, env)?, op, expr_n(&b.right, env)?))
        }
        _ => e(format!("unsupported expression `{}`", t)),
    }
}

fn cmp_n(x: &syn::Expr, env: &Env) -> Result<String, GenError> {
    match x {
        syn::Expr::Paren(p) => cmp_n(&p.expr, env),
        syn::Expr::Binary(b) => {
            let l = expr_n(&b.left, env)?;
            let r = expr_n(&b.right, env)?;
            Ok(match b.op {
                syn::BinOp::Ge(_) => format!("({} <=? {})", r, l),
                syn::BinOp::Gt(_) => format!("({} <? {})", r, l),
                syn::BinOp::Le(_) => format!("({} <=? {})", l, r),
                syn::BinOp::Lt(_) => format!("({} <? {})", l, r),
                syn::BinOp::Eq(_) => format!("({} =? {})", l, r),
                _ => return e(format!("unsupported comparison `{}`", toks(x))),
            })
        }
        _ => e(format!("not a comparison: `{}`", toks(x))),
    }
}

/// All methods of the file, keyed by "Type::name".
struct Fns(BTreeMap<String, syn::ImplItemFn>);
impl<'ast> Visit<'ast> for Fns {
    fn visit_item_impl(&mut self, i: &'ast syn::ItemImpl) {
        if i.trait_.is_none() {
            let ty = toks(&i.self_ty);
            for it in &i.items {
                if let syn::ImplItem::Fn(f) = it {
                    self.0.insert(format!("{}::{}", ty, f.sig.ident), f.clone());
                }
            }
        }
        // do not descend: nested impls inside function bodies (Scope1) are irrelevant
    }
    fn visit_item_mod(&mut self, _m: &'ast syn::ItemMod) {
        // skip `mod tests`
    }
}

#[derive(Default)]
struct Body {
    lets: Vec<(String, syn::Expr)>,
    ifs: Vec<syn::ExprIf>,
    /// (lhs tokens, operator, rhs)
    assigns: Vec<(String, String, syn::Expr)>,
    calls: Vec<String>,
    struct_fields: Vec<(String, syn::Expr)>,
}
impl<'ast> Visit<'ast> for Body {
    fn visit_local(&mut self, l: &'ast syn::Local) {
        if let (syn::Pat::Ident(i), Some(init)) = (&l.pat, &l.init) {
            self.lets.push((i.ident.to_string(), (*init.expr).clone()));
        }
        syn::visit::visit_local(self, l);
    }
    fn visit_expr_if(&mut self, i: &'ast syn::ExprIf) {
        self.ifs.push(i.clone());
        syn::visit::visit_expr_if(self, i);
    }
    fn visit_expr_assign(&mut self, a: &'ast syn::ExprAssign) {
        self.assigns.push((toks(&*a.left), "=".into(), (*a.right).clone()));
        syn::visit::visit_expr_assign(self, a);
    }
    fn visit_expr_binary(&mut self, b: &'ast syn::ExprBinary) {
        let op = match b.op {
            syn::BinOp::AddAssign(_) => Some("+="),
            syn::BinOp::SubAssign(_) => Some("-="),
            syn::BinOp::MulAssign(_) => Some("*="),
            syn::BinOp::DivAssign(_) | syn::BinOp::RemAssign(_) | syn::BinOp::ShlAssign(_) | syn::BinOp::ShrAssign(_)
            | syn::BinOp::BitAndAssign(_) | syn::BinOp::BitOrAssign(_) | syn::BinOp::BitXorAssign(_) => Some("?="),
            _ => None,
        };
        if let Some(op) = op {
            self.assigns.push((toks(&*b.left), op.into(), (*b.right).clone()));
        }
        syn::visit::visit_expr_binary(self, b);
    }
    fn visit_expr_method_call(&mut self, m: &'ast syn::ExprMethodCall) {
        self.calls.push(format!("{} . {}", toks(&*m.receiver), m.method));
        syn::visit::visit_expr_method_call(self, m);
    }
    fn visit_expr_struct(&mut self, s: &'ast syn::ExprStruct) {
        for f in s.fields.iter() {
            self.struct_fields.push((toks(&f.member), f.expr.clone()));
        }
        syn::visit::visit_expr_struct(self, s);
    }
    fn visit_item(&mut self, _i: &'ast syn::Item) {
        // nested items (helper structs/impls/fns inside a body) are not part of the arithmetic
    }
}

fn body(fns: &Fns, name: &str) -> Result<Body, GenError> {
    let f = fns.0.get(name).ok_or(GenError { item: ITEM.into(), msg: format!("fn {} not found in vm/src/gc.rs", name) })?;
    let mut b = Body::default();
    b.visit_block(&f.block);
    Ok(b)
}

fn only_assign<'a>(b: &'a Body, field: &str, whereis: &str) -> Result<&'a (String, String, syn::Expr), GenError> {
    let v: Vec<_> = b.assigns.iter().filter(|a| a.0.ends_with(field)).collect();
    if v.len() != 1 {
        return e(format!("{}: expected exactly one assignment to `{}`, found {}", whereis, field, v.len()));
    }
    Ok(v[0])
}

pub fn generate() -> GenResult {
    let file = parse_file(ITEM, "vm/src/gc.rs")?;
    let mut fns = Fns(BTreeMap::new());
    fns.visit_file(&file);

    // ---- no other function touches the counters
    for (name, f) in fns.0.iter() {
        let mut b = Body::default();
        b.visit_block(&f.block);
        for a in &b.assigns {
            let allowed: &[&str] = if a.0.ends_with("allocated_memory") {
                &["Gc::alloc_ignore_limit_", "Gc::free"]
            } else if a.0.ends_with("collect_limit") {
                &["Gc::collect"]
            } else if a.0.ends_with("memory_limit") {
                &["Gc::set_memory_limit"]
            } else {
                continue;
            };
            if !allowed.contains(&name.as_str()) {
                return e(format!("{} assigns `{}` (not modelled)", name, a.0));
            }
        }
    }

    // ---- Gc::new
    let new = body(&fns, "Gc::new")?;
    let lit_field = |n: &str| -> Result<String, GenError> {
        let v: Vec<_> = new.struct_fields.iter().filter(|f| f.0 == n).collect();
        if v.len() != 1 {
            return e(format!("Gc::new: field `{}` not found exactly once", n));
        }
        expr_n(&v[0].1, &Env::new())
    };
    let init_alloc = lit_field("allocated_memory")?;
    let init_climit = lit_field("collect_limit")?;

    // ---- AllocPtr::size
    let size_fn = fns.0.get("AllocPtr::size").ok_or(GenError { item: ITEM.into(), msg: "AllocPtr::size not found".into() })?;
    let size_expr = match size_fn.block.stmts.as_slice() {
        [syn::Stmt::Expr(x, None)] => x.clone(),
        _ => return e("AllocPtr::size is not a single expression"),
    };
    let mut env = Env::new();
    env.insert("self . value_size", "value_size");
    let obj_size = expr_n(&size_expr, &env)?;
    // AllocPtr::new must store its argument as value_size
    let apn = fns.0.get("AllocPtr::new").ok_or(GenError { item: ITEM.into(), msg: "AllocPtr::new not found".into() })?;
    let apn_t = toks(&apn.block);
    if !(apn_t.contains("value_size : value_size") && apn_t.contains("new (type_info , value_size)")) {
        return e("AllocPtr::new no longer stores `value_size: value_size`");
    }

    // ---- Gc::alloc_and_collect : check_collect before alloc_owned
    let ac = body(&fns, "Gc::alloc_and_collect")?;
    let pc = ac.calls.iter().position(|c| c == "self . check_collect");
    let pa = ac.calls.iter().position(|c| c == "self . alloc_owned");
    match (pc, pa) {
        (Some(a), Some(b)) if a < b => {}
        _ => return e("alloc_and_collect no longer calls check_collect and then alloc_owned"),
    }

    // ---- Gc::alloc_owned
    let ao = body(&fns, "Gc::alloc_owned")?;
    match ao.lets.iter().find(|l| l.0 == "size") {
        Some((_, x)) if toks(x) == "def . size ()" => {}
        _ => return e("alloc_owned: `let size = def.size();` not found"),
    }
    let needed = ao.lets.iter().filter(|l| l.0 == "needed").collect::<Vec<_>>();
    if needed.len() != 1 {
        return e("alloc_owned: `let needed = ..;` not found exactly once");
    }
    let mut env = Env::new();
    env.insert("self . allocated_memory", "allocated");
    env.insert("size", "size");
    let needed_expr = expr_n(&needed[0].1, &env)?;
    let ifs: Vec<_> = ao.ifs.iter().filter(|i| toks(&*i.cond).contains("memory_limit")).collect();
    if ifs.len() != 1 || ao.ifs.len() != 1 {
        return e(format!("alloc_owned: expected exactly one `if` (the limit test), found {}", ao.ifs.len()));
    }
    let then = toks(&ifs[0].then_branch);
    if !(then.contains("return Err (Error :: OutOfMemory") && ifs[0].else_branch.is_none()) {
        return e("alloc_owned: the limit test no longer returns Err(Error::OutOfMemory ..)");
    }
    let mut env = Env::new();
    env.insert("needed", "needed");
    env.insert("self . memory_limit", "limit");
    let refused = cmp_n(&ifs[0].cond, &env)?;
    let f = fns.0.get("Gc::alloc_owned").unwrap();
    match f.block.stmts.last() {
        Some(syn::Stmt::Expr(x, None)) if toks(x) == "Ok (self . alloc_ignore_limit_ (size , def))" => {}
        _ => return e("alloc_owned does not end in `Ok(self.alloc_ignore_limit_(size, def))`"),
    }
    // alloc_ignore_limit passes def.size() as well
    let ai = fns.0.get("Gc::alloc_ignore_limit").ok_or(GenError { item: ITEM.into(), msg: "alloc_ignore_limit not found".into() })?;
    if !toks(&ai.block).contains("self . alloc_ignore_limit_ (def . size () , def)") {
        return e("alloc_ignore_limit no longer calls alloc_ignore_limit_(def.size(), def)");
    }

    // ---- Gc::alloc_ignore_limit_
    let ail = body(&fns, "Gc::alloc_ignore_limit_")?;
    match ail.lets.iter().find(|l| l.0 == "ptr") {
        Some((_, x)) if toks(x) == "AllocPtr :: new :: < D :: Value > (type_info , size)" => {}
        _ => return e("alloc_ignore_limit_: `let mut ptr = AllocPtr::new::<D::Value>(type_info, size);` not found"),
    }
    let add = only_assign(&ail, "allocated_memory", "alloc_ignore_limit_")?;
    let mut env = Env::new();
    env.insert("ptr . size ()", "(obj_size hdr size)");
    env.insert("size", "size");
    let add_rhs = expr_n(&add.2, &env)?;
    let add_def = match add.1.as_str() {
        "+=" => format!("(allocated + {})", add_rhs),
        "=" => {
            let mut env2 = env.clone();
            env2.insert("self . allocated_memory", "allocated");
            expr_n(&add.2, &env2)?
        }
        o => return e(format!("alloc_ignore_limit_: unsupported update `{}`", o)),
    };

    // ---- Gc::free
    let fr = body(&fns, "Gc::free")?;
    let sub = only_assign(&fr, "allocated_memory", "free")?;
    let sub_rhs = expr_n(&sub.2, &env)?;
    let sub_def = match sub.1.as_str() {
        "-=" => format!("(allocated - {})", sub_rhs),
        o => return e(format!("free: unsupported update `{}`", o)),
    };

    // ---- Gc::check_collect
    let cc = body(&fns, "Gc::check_collect")?;
    let ifs: Vec<_> = cc.ifs.iter().filter(|i| toks(&*i.cond).contains("collect_limit")).collect();
    if ifs.len() != 1 {
        return e(format!("check_collect: expected one `if` on collect_limit, found {}", ifs.len()));
    }
    if !toks(&ifs[0].then_branch).contains("self . collect (roots)") {
        return e("check_collect: the trigger no longer calls self.collect(roots)");
    }
    let mut env = Env::new();
    env.insert("self . allocated_memory", "allocated");
    env.insert("self . collect_limit", "collect_limit");
    let due = cmp_n(&ifs[0].cond, &env)?;

    // ---- Gc::collect
    let co = body(&fns, "Gc::collect")?;
    let cl = only_assign(&co, "collect_limit", "collect")?;
    if cl.1 != "=" {
        return e("collect: collect_limit is not plainly assigned");
    }
    let mut env = Env::new();
    env.insert("self_ . allocated_memory", "allocated");
    env.insert("self . allocated_memory", "allocated");
    let climit_after = expr_n(&cl.2, &env)?;
    // sweep happens before the new collect_limit is computed
    let cot = toks(&fns.0.get("Gc::collect").unwrap().block);
    match (cot.find("sweep ()"), cot.find("collect_limit =")) {
        (Some(a), Some(b)) if a < b => {}
        _ => return e("collect: sweep() no longer precedes the collect_limit update"),
    }

    let mut s = String::new();
    s.push_str("(* GENERATED by gvh gencoq from /repo/vm/src/gc.rs (Gc accounting arithmetic). Do not edit. *)\n");
    s.push_str("From Coq Require Import NArith Bool.\nLocal Open Scope N_scope.\n\n");
    s.push_str("(* usize on the 64-bit targets the harness is built for *)\n");
    s.push_str("Definition usize_max : N := 18446744073709551615.\n");
    s.push_str("Definition sat_add (a b : N) : N := N.min (a + b) usize_max.\n\n");
    s.push_str("(* `hdr` stands for GcHeader::value_offset(), a layout constant measured by the harness. *)\n");
    s.push_str(&format!("(* AllocPtr::size *)\nDefinition obj_size (hdr value_size : N) : N := {}.\n\n", obj_size));
    s.push_str(&format!("(* Gc::new *)\nDefinition initial_allocated : N := {}.\nDefinition initial_collect_limit : N := {}.\n\n", init_alloc, init_climit));
    s.push_str(&format!("(* Gc::alloc_owned: `let needed = {};` *)\n", toks(&needed[0].1)));
    s.push_str(&format!("Definition alloc_needed (hdr allocated size : N) : N := {}.\n", needed_expr));
    s.push_str(&format!("(* Gc::alloc_owned: `if {} {{ return Err(OutOfMemory) }}` *)\n", toks(&*ao.ifs[0].cond)));
    s.push_str(&format!("Definition alloc_refused (needed limit : N) : bool := {}.\n\n", refused));
    s.push_str(&format!("(* Gc::alloc_ignore_limit_: `self.allocated_memory {} {};` with ptr = AllocPtr::new(.., size) *)\n", add.1, toks(&add.2)));
    s.push_str(&format!("Definition alloc_update (hdr allocated size : N) : N := {}.\n\n", add_def));
    s.push_str(&format!("(* Gc::free: `self.allocated_memory {} {};` *)\n", sub.1, toks(&sub.2)));
    s.push_str(&format!("Definition free_update (hdr allocated size : N) : N := {}.\n\n", sub_def));
    s.push_str(&format!("(* Gc::check_collect: `if {} {{ self.collect(roots) }}` *)\n", toks(&*ifs[0].cond)));
    s.push_str(&format!("Definition collect_due (allocated collect_limit : N) : bool := {}.\n\n", due));
    s.push_str(&format!("(* Gc::collect (after sweep): `collect_limit = {};` *)\n", toks(&cl.2)));
    s.push_str(&format!("Definition collect_limit_after (allocated : N) : N := {}.\n", climit_after));
    Ok(s)
}
