//! vm/src/types.rs: `enum Instruction` -> the *codec table* of the instruction set, used by
//! coq/theories/VM/Codec.v (C12).  `gen/InstrGen.v` (translator `instr.rs`, C07) provides
//! `Inductive instr` (constructor `I<Variant>`, fields in declaration order, VmInt -> Z, everything
//! else -> N).  It forgets the *wire* type of each field (u8 / u32 / f64 are all `N`) and the variant
//! index, which is what serde writes.  This translator regenerates, in DECLARATION ORDER (serde's
//! variant index = position in the enum, there is no `#[serde(rename/skip/other)]` on the enum — that
//! is checked below):
//!
//!   * `instr_table : list (list N * vshape)`   variant name (bytes) and body shape
//!       `SUnit | SNewtype t | SStruct [(field name, t)]`, `t : fty := FI64 | FU8 | FU32 | FF64`;
//!   * `instr_index : instr -> nat`                     the serde variant index;
//!   * `instr_fields : instr -> list fval`              the field values with their wire type;
//!   * `instr_builders : list (list fval -> option instr)`   the inverse, one builder per index.
//!
//! Accepted shape: the enum carries `derive(Deserialize, Serialize)` (through `cfg_attr(feature =
//! "serde_derive", ..)`) and no other serde attribute anywhere inside it; variants are unit | tuple
//! with exactly ONE field | struct-like; field types are VmInt (i64), u8, VmIndex/VmTag (u32, the
//! aliases are checked), EqFloat (newtype struct over f64 with derived serde => serialised as f64).
use super::*;
use syn::visit::Visit;

const ITEM: &str = "InstrCodecGen";

struct Find {
    enums: Vec<syn::ItemEnum>,
}
impl<'ast> Visit<'ast> for Find {
    fn visit_item_enum(&mut self, i: &'ast syn::ItemEnum) {
        if i.ident == "Instruction" {
            self.enums.push(i.clone());
        }
    }
}

fn fty(t: &syn::Type) -> Result<&'static str, GenError> {
    match toks(t).as_str() {
        "VmInt" => Ok("FI64"),
        "u8" => Ok("FU8"),
        "VmIndex" | "VmTag" => Ok("FU32"),
        "EqFloat" => Ok("FF64"),
        other => err(ITEM, format!("unsupported instruction field type `{}`", other)),
    }
}

fn vcon(t: &str) -> &'static str {
    match t {
        "FI64" => "VI64",
        "FU8" => "VU8",
        "FU32" => "VU32",
        _ => "VF64",
    }
}

pub struct CVariant {
    pub name: String,
    /// (field name — `a0` for the single positional field —, fty constructor)
    pub fields: Vec<(String, &'static str)>,
    pub named: bool,
}

pub fn variants() -> Result<Vec<CVariant>, GenError> {
    let file = parse_file(ITEM, "vm/src/types.rs")?;
    let src = read_repo("vm/src/types.rs");
    let flat: String = src.split_whitespace().collect::<Vec<_>>().join(" ");
    for frag in [
        "pub type VmIndex = u32;",
        "pub type VmTag = u32;",
        "pub type VmInt = i64;",
        "#[cfg_attr(feature = \"serde_derive\", derive(Deserialize, Serialize))] pub struct EqFloat(pub f64);",
    ] {
        if !flat.contains(frag) {
            return err(ITEM, format!("types.rs no longer contains `{}`", frag));
        }
    }
    let mut f = Find { enums: vec![] };
    f.visit_file(&file);
    if f.enums.len() != 1 {
        return err(ITEM, format!("expected exactly one `enum Instruction`, found {}", f.enums.len()));
    }
    let e = &f.enums[0];
    // serde attributes: exactly the derive, nothing that changes names, indices or representation
    let mut derives = false;
    for a in &e.attrs {
        let t = toks(a);
        if t.contains("serde") {
            if t == "# [cfg_attr (feature = \"serde_derive\" , derive (Deserialize , Serialize))]" {
                derives = true;
            } else {
                return err(ITEM, format!("unexpected serde attribute on enum Instruction: `{}`", t));
            }
        }
    }
    if !derives {
        return err(ITEM, "enum Instruction no longer derives (Deserialize, Serialize) under feature serde_derive");
    }
    let mut out = vec![];
    for v in e.variants.iter() {
        if v.discriminant.is_some() {
            return err(ITEM, "explicit discriminant");
        }
        for a in &v.attrs {
            if toks(a).contains("serde") {
                return err(ITEM, format!("serde attribute on variant {}", v.ident));
            }
        }
        let name = v.ident.to_string();
        let no_serde = |fld: &syn::Field| -> Result<(), GenError> {
            for a in &fld.attrs {
                if toks(a).contains("serde") {
                    return err(ITEM, format!("serde attribute on a field of variant {}", name));
                }
            }
            Ok(())
        };
        match &v.fields {
            syn::Fields::Unit => out.push(CVariant { name, fields: vec![], named: false }),
            syn::Fields::Unnamed(u) => {
                if u.unnamed.len() != 1 {
                    return err(ITEM, format!("tuple variant {} has {} fields (expected 1: serde newtype variant)", name, u.unnamed.len()));
                }
                no_serde(&u.unnamed[0])?;
                let t = fty(&u.unnamed[0].ty)?;
                out.push(CVariant { name, fields: vec![("a0".into(), t)], named: false });
            }
            syn::Fields::Named(n) => {
                let mut fields = vec![];
                for fld in n.named.iter() {
                    no_serde(fld)?;
                    fields.push((fld.ident.as_ref().unwrap().to_string(), fty(&fld.ty)?));
                }
                if fields.is_empty() {
                    return err(ITEM, format!("struct variant {} without fields", name));
                }
                out.push(CVariant { name, fields, named: true });
            }
        }
    }
    if out.is_empty() {
        return err(ITEM, "enum Instruction has no variants");
    }
    Ok(out)
}

pub fn generate() -> GenResult {
    let vs = variants()?;
    let mut s = String::new();
    s.push_str("(* GENERATED by gvh gencoq from /repo/vm/src/types.rs (enum Instruction, serde shape). Do not edit. *)\n");
    s.push_str("From Coq Require Import ZArith NArith List.\nFrom GVgen Require Import InstrGen.\nImport ListNotations.\n\n");
    s.push_str("(* wire type of an instruction field: VmInt = i64 | u8 | VmIndex/VmTag = u32 | EqFloat = f64 (bit pattern) *)\n");
    s.push_str("Inductive fty : Type := FI64 | FU8 | FU32 | FF64.\n");
    s.push_str("Inductive fval : Type := VI64 (z : Z) | VU8 (n : N) | VU32 (n : N) | VF64 (bits : N).\n");
    s.push_str("(* body of a variant in serde's data model: unit / newtype / struct variant (field names as bytes) *)\n");
    s.push_str("Inductive vshape : Type := SUnit | SNewtype (t : fty) | SStruct (fs : list (list N * fty)).\n\n");
    s.push_str("(* variant table in declaration order: position = serde variant index *)\n");
    s.push_str("Definition instr_table : list (list N * vshape) := [\n");
    let rows: Vec<String> = vs
        .iter()
        .enumerate()
        .map(|(i, v)| {
            let shape = if v.fields.is_empty() {
                "SUnit".to_string()
            } else if !v.named {
                format!("SNewtype {}", v.fields[0].1)
            } else {
                let fs: Vec<String> = v.fields.iter().map(|(n, t)| format!("({}, {})", coq_bytes(n), t)).collect();
                format!("SStruct [{}]", fs.join("; "))
            };
            format!("  (* {:2} {} *) ({}, {})", i, v.name, coq_bytes(&v.name), shape)
        })
        .collect();
    s.push_str(&rows.join(";\n"));
    s.push_str("\n].\n\n");
    let pat = |v: &CVariant| -> String {
        let names: Vec<String> = v.fields.iter().map(|(n, _)| format!("x_{}", n)).collect();
        format!("I{}{}{}", v.name, if names.is_empty() { "" } else { " " }, names.join(" "))
    };
    let vals = |v: &CVariant| -> String {
        let xs: Vec<String> = v.fields.iter().map(|(n, t)| format!("{} x_{}", vcon(t), n)).collect();
        format!("[{}]", xs.join("; "))
    };
    s.push_str("Definition instr_index (i : instr) : nat :=\n  match i with\n");
    for (k, v) in vs.iter().enumerate() {
        let wild: Vec<&str> = v.fields.iter().map(|_| "_").collect();
        s.push_str(&format!("  | I{}{}{} => {}\n", v.name, if wild.is_empty() { "" } else { " " }, wild.join(" "), k));
    }
    s.push_str("  end.\n\n");
    s.push_str("Definition instr_fields (i : instr) : list fval :=\n  match i with\n");
    for v in &vs {
        s.push_str(&format!("  | {} => {}\n", pat(v), vals(v)));
    }
    s.push_str("  end.\n\n");
    s.push_str("(* one builder per variant index: the inverse of (instr_index, instr_fields) *)\n");
    s.push_str("Definition instr_builders : list (list fval -> option instr) := [\n");
    let bs: Vec<String> = vs
        .iter()
        .map(|v| format!("  (fun vs => match vs with {} => Some ({}) | _ => None end)", vals(v), pat(v)))
        .collect();
    s.push_str(&bs.join(";\n"));
    s.push_str("\n].\n");
    Ok(s)
}
