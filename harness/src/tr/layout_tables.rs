//! parser/src/layout.rs: `enum Context`, `fn token_closes_context`, the `push_context` table of
//! `layout_next_token` and one statement of its `CloseBlock` arm -> coq/gen/LayoutTablesGen.v.
//!
//! Accepted shapes (anything else fails loudly):
//!   enum Context { Block { emit_semi: bool }, <unit variants> }
//!   fn token_closes_context(token, context) -> bool {
//!       match (token, context) { (&Token::A, Context::X) | ... | (_, Context::Block { .. }) => true, (_, _) => false } }
//!   let push_context = match token.value { Token::A => Some(Context::X), Token::B | Token::C => Some(..), _ => None };
//!   the match arm `Context::Block { .. } if token.value == Token::CloseBlock => { .. }` of layout_next_token:
//!   only WHETHER its body assigns `*emit_semi = false` is translated (flag close_block_resets_semi).
//! Token kinds are mapped to the constructors of `tk` in coq/theories/Front/LayoutBase.v.
use super::*;
use syn::visit::Visit;

const ITEM: &str = "LayoutTablesGen";

/// Token variants the model distinguishes (LayoutBase.v `tk`); every token named by the tables
/// has to be one of them.
const TOKENS: &[&str] = &[
    "EOF", "ShebangLine", "Comma", "In", "CloseBlock", "OpenBlock", "Semi", "Else", "RBrace", "RBracket", "RParen", "Pipe",
    "AttributeOpen", "DocComment", "Rec", "Type", "Let", "Do", "Seq", "If", "Match", "Lambda", "LBrace", "LBracket", "LParen",
    "Equals", "RArrow", "Then", "With",
];

fn tk_name(tok: &str) -> String {
    match tok {
        "ShebangLine" => "TShebang".to_string(),
        t => format!("T{}", t),
    }
}

#[derive(Default)]
struct Find {
    enums: Vec<syn::ItemEnum>,
    closes: Vec<syn::ItemFn>,
    push_context: Vec<syn::ExprMatch>,
    close_block_arm: Vec<syn::Arm>,
}

impl<'ast> Visit<'ast> for Find {
    fn visit_item_enum(&mut self, i: &'ast syn::ItemEnum) {
        if i.ident == "Context" {
            self.enums.push(i.clone());
        }
    }
    fn visit_item_fn(&mut self, i: &'ast syn::ItemFn) {
        if i.sig.ident == "token_closes_context" {
            self.closes.push(i.clone());
        }
        syn::visit::visit_item_fn(self, i);
    }
    fn visit_local(&mut self, l: &'ast syn::Local) {
        if toks(&l.pat) == "push_context" {
            if let Some(init) = &l.init {
                if let syn::Expr::Match(m) = &*init.expr {
                    self.push_context.push(m.clone());
                }
            }
        }
        syn::visit::visit_local(self, l);
    }
    fn visit_arm(&mut self, a: &'ast syn::Arm) {
        if toks(&a.pat) == "Context :: Block { .. }" {
            if let Some((_, g)) = &a.guard {
                if toks(g) == "token . value == Token :: CloseBlock" {
                    self.close_block_arm.push(a.clone());
                }
            }
        }
        syn::visit::visit_arm(self, a);
    }
}

/// `& Token :: Else` / `Token :: Else` / `_`  ->  Coq pattern
fn token_pat(p: &str) -> Result<String, GenError> {
    let p = p.trim_start_matches('&').trim();
    if p == "_" {
        return Ok("_".into());
    }
    if let Some(name) = p.strip_prefix("Token :: ") {
        let name = name.split(|c: char| !c.is_alphanumeric()).next().unwrap_or("");
        if TOKENS.contains(&name) {
            return Ok(tk_name(name));
        }
        return err(ITEM, format!("token `{}` is not a kind the layout model distinguishes", name));
    }
    err(ITEM, format!("unrecognised token pattern `{}`", p))
}

fn context_pat(p: &str, variants: &[(String, bool)]) -> Result<String, GenError> {
    let p = p.trim();
    if p == "_" {
        return Ok("_".into());
    }
    if let Some(rest) = p.strip_prefix("Context :: ") {
        let name: String = rest.chars().take_while(|c| c.is_alphanumeric()).collect();
        match variants.iter().find(|(n, _)| *n == name) {
            Some((_, true)) => {
                if rest[name.len()..].trim() == "{ .. }" {
                    return Ok(format!("C{} _", name));
                }
                return err(ITEM, format!("pattern `{}` binds fields (only `{{ .. }}` is translated)", p));
            }
            Some((_, false)) => {
                if rest.len() == name.len() {
                    return Ok(format!("C{}", name));
                }
                return err(ITEM, format!("unexpected pattern `{}`", p));
            }
            None => return err(ITEM, format!("unknown context `{}`", name)),
        }
    }
    err(ITEM, format!("unrecognised context pattern `{}`", p))
}

fn or_alternatives(p: &syn::Pat) -> Vec<syn::Pat> {
    match p {
        syn::Pat::Or(o) => o.cases.iter().cloned().collect(),
        syn::Pat::Paren(pp) => or_alternatives(&pp.pat),
        other => vec![other.clone()],
    }
}

pub fn generate() -> GenResult {
    let file = parse_file(ITEM, "parser/src/layout.rs")?;
    let mut v = Find::default();
    v.visit_file(&file);
    if v.enums.len() != 1 {
        return err(ITEM, format!("expected exactly one `enum Context`, found {}", v.enums.len()));
    }
    if v.closes.len() != 1 {
        return err(ITEM, format!("expected exactly one `fn token_closes_context`, found {}", v.closes.len()));
    }
    if v.push_context.len() != 1 {
        return err(ITEM, format!("expected exactly one `let push_context = match ..`, found {}", v.push_context.len()));
    }
    if v.close_block_arm.len() != 1 {
        return err(ITEM, format!("expected exactly one arm `Context::Block {{ .. }} if token.value == Token::CloseBlock`, found {}", v.close_block_arm.len()));
    }

    // ---- enum Context
    let mut variants: Vec<(String, bool)> = vec![];
    for var in &v.enums[0].variants {
        match &var.fields {
            syn::Fields::Unit => variants.push((var.ident.to_string(), false)),
            syn::Fields::Named(n) => {
                let fs: Vec<String> = n.named.iter().map(|f| format!("{}: {}", f.ident.as_ref().unwrap(), toks(&f.ty))).collect();
                if var.ident == "Block" && fs == vec!["emit_semi: bool".to_string()] {
                    variants.push(("Block".into(), true));
                } else {
                    return err(ITEM, format!("variant {} {{ {} }} is not translated", var.ident, fs.join(", ")));
                }
            }
            _ => return err(ITEM, format!("variant {} has unnamed fields", var.ident)),
        }
    }
    if !variants.iter().any(|(n, b)| n == "Block" && *b) {
        return err(ITEM, "enum Context has no `Block { emit_semi: bool }`");
    }

    let mut s = String::new();
    s.push_str("(* GENERATED by gvh gencoq from /repo/parser/src/layout.rs (enum Context, token_closes_context,\n   the push_context table and the CloseBlock arm of layout_next_token). Do not edit. *)\n");
    s.push_str("From Coq Require Import Bool.\nFrom GV Require Import Front.LayoutBase.\n\n");
    s.push_str("Inductive ctx : Set :=\n");
    for (n, b) in &variants {
        if *b {
            s.push_str(&format!("  | C{} (emit_semi : bool)\n", n));
        } else {
            s.push_str(&format!("  | C{}\n", n));
        }
    }
    s.push_str("  .\n\n");

    // ---- token_closes_context
    let f = &v.closes[0];
    let params: Vec<String> = f
        .sig
        .inputs
        .iter()
        .map(|a| match a {
            syn::FnArg::Typed(t) => toks(&t.pat),
            _ => "self".into(),
        })
        .collect();
    if params.len() != 2 {
        return err(ITEM, "token_closes_context does not take two parameters");
    }
    let m = match f.block.stmts.as_slice() {
        [syn::Stmt::Expr(syn::Expr::Match(m), None)] => m,
        _ => return err(ITEM, "body of token_closes_context is not a single match"),
    };
    if toks(&m.expr) != format!("({} , {})", params[0], params[1]) {
        return err(ITEM, format!("token_closes_context matches on `{}`", toks(&m.expr)));
    }
    s.push_str("(* fn token_closes_context *)\nDefinition closes (t : tk) (c : ctx) : bool :=\n  match t, c with\n");
    for arm in &m.arms {
        if arm.guard.is_some() {
            return err(ITEM, "guarded arm in token_closes_context");
        }
        let body = toks(&arm.body);
        if body != "true" && body != "false" {
            return err(ITEM, format!("arm body `{}` is not a boolean literal", body));
        }
        for alt in or_alternatives(&arm.pat) {
            let (a, b) = match &alt {
                syn::Pat::Tuple(t) if t.elems.len() == 2 => (toks(&t.elems[0]), toks(&t.elems[1])),
                other => return err(ITEM, format!("pattern `{}` is not a pair", toks(other))),
            };
            s.push_str(&format!("  | {}, {} => {}\n", token_pat(&a)?, context_pat(&b, &variants)?, body));
        }
    }
    s.push_str("  end.\n\n");

    // ---- push_context
    let pm = &v.push_context[0];
    if toks(&pm.expr) != "token . value" {
        return err(ITEM, format!("push_context matches on `{}`", toks(&pm.expr)));
    }
    s.push_str("(* `let push_context = match token.value { .. }` in layout_next_token *)\nDefinition push_context_of (t : tk) : option ctx :=\n  match t with\n");
    for arm in &pm.arms {
        if arm.guard.is_some() {
            return err(ITEM, "guarded arm in push_context");
        }
        let body = toks(&arm.body);
        let rhs = if body == "None" {
            "None".to_string()
        } else if let Some(inner) = body.strip_prefix("Some (").and_then(|r| r.strip_suffix(")")) {
            let c = context_pat(inner.trim(), &variants)?;
            if c.ends_with(" _") {
                return err(ITEM, "push_context pushes a Block");
            }
            format!("Some {}", c)
        } else {
            return err(ITEM, format!("push_context arm body `{}`", body));
        };
        for alt in or_alternatives(&arm.pat) {
            s.push_str(&format!("  | {} => {}\n", token_pat(&toks(&alt))?, rhs));
        }
    }
    s.push_str("  end.\n\n");

    // ---- the CloseBlock arm
    let body = toks(&v.close_block_arm[0].body);
    let resets = body.contains("* emit_semi = false");
    if !body.contains("return Ok (token)") {
        return err(ITEM, "the CloseBlock arm does not `return Ok(token)`");
    }
    s.push_str("(* layout_next_token, arm `Context::Block { .. } if token.value == Token::CloseBlock`: does it clear\n   `emit_semi` of the enclosing block before returning the token? *)\n");
    s.push_str(&format!("Definition close_block_resets_semi : bool := {}.\n", if resets { "true" } else { "false" }));
    Ok(s)
}
