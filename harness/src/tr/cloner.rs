//! vm/src/value.rs `impl Cloner` -> coq/gen/ClonerGen.v: how `deep_clone` treats each kind of
//! object and each of its fields (tie T for Heap/Clone.v).
//!
//! Read from the source:
//!   * deep_clone_inner: which arm handles which `ValueRepr` variant
//!   * which of the deep_clone_* functions go through `deep_clone_ptr` (the `visited` map) -> [gen_memo]
//!   * deep_clone_array: the `match new_array.repr()` table: per element representation whether the
//!     elements are left as copied (`Ok(())`), cloned with the generation test (deep_clone_inner, or
//!     an explicit `can_contain_values_from` test + deep_clone_str), cloned unconditionally
//!     (deep_clone_array / deep_clone_userdata) or refused -> [gen_fmode_of] for the array kinds
//!   * deep_clone_data / deep_clone_closure / deep_clone_app: how fields are filled
//! Anything that does not have one of the recognised shapes fails loudly.
use super::*;
use std::collections::BTreeMap;
use syn::visit::Visit;

const ITEM: &str = "ClonerGen";

fn e<T>(msg: impl Into<String>) -> Result<T, GenError> {
    err(ITEM, msg)
}

struct ClonerFns(BTreeMap<String, syn::ImplItemFn>);
impl<'ast> Visit<'ast> for ClonerFns {
    fn visit_item_impl(&mut self, i: &'ast syn::ItemImpl) {
        if toks(&i.self_ty).starts_with("Cloner") {
            for it in &i.items {
                if let syn::ImplItem::Fn(f) = it {
                    self.0.insert(f.sig.ident.to_string(), f.clone());
                }
            }
        }
        syn::visit::visit_item_impl(self, i);
    }
}

struct Matches(Vec<syn::ExprMatch>);
impl<'ast> Visit<'ast> for Matches {
    fn visit_expr_match(&mut self, m: &'ast syn::ExprMatch) {
        self.0.push(m.clone());
        syn::visit::visit_expr_match(self, m);
    }
}

fn pat_variants(p: &syn::Pat, out: &mut Vec<String>) -> Result<(), GenError> {
    match p {
        syn::Pat::Or(o) => {
            for c in &o.cases {
                pat_variants(c, out)?;
            }
            Ok(())
        }
        syn::Pat::Path(_) | syn::Pat::Ident(_) | syn::Pat::TupleStruct(_) => {
            out.push(toks(p));
            Ok(())
        }
        _ => e(format!("unexpected pattern `{}`", toks(p))),
    }
}

/// Classifies the body of one arm of `match new_array.repr()`.
fn classify_array_arm(body: &str) -> Result<&'static str, GenError> {
    let b = body.trim();
    if b == "Ok (())" {
        return Ok("Some FShare");
    }
    if b.contains("return Err") {
        return Ok("None");
    }
    if b.contains("deep_clone_elems") {
        if b.contains("self . deep_clone_inner (e)") {
            return Ok("Some FInner");
        }
        if b.contains("can_contain_values_from") && b.contains("self . deep_clone_str (e)") {
            return Ok("Some FInner");
        }
        if b.contains("self . deep_clone_array (e)") || b.contains("self . deep_clone_userdata (e)") {
            return Ok("Some FForce");
        }
    }
    e(format!("deep_clone_array: unrecognised arm body `{}`", b))
}

pub fn generate() -> GenResult {
    let file = parse_file(ITEM, "vm/src/value.rs")?;
    let mut v = ClonerFns(BTreeMap::new());
    v.visit_file(&file);
    let f = v.0;
    for n in ["deep_clone_inner", "deep_clone_ptr", "deep_clone_str", "deep_clone_data", "deep_clone_array", "deep_clone_closure", "deep_clone_app", "deep_clone_userdata"] {
        if !f.contains_key(n) {
            return e(format!("Cloner::{} not found", n));
        }
    }
    let body = |n: &str| toks(&f[n].block);

    // ---- deep_clone_inner: dispatch
    let inner = body("deep_clone_inner");
    for frag in [
        "String (data) => self . deep_clone_str (data)",
        "ValueRepr :: Data (data) => self . deep_clone_data (data) . map (ValueRepr :: Data)",
        "ValueRepr :: Array (data) => self . deep_clone_array (data) . map (ValueRepr :: Array)",
        "Closure (data) => self . deep_clone_closure (data) . map (ValueRepr :: Closure)",
        "PartialApplication (data) => { self . deep_clone_app (data) . map (ValueRepr :: PartialApplication) }",
        "Function (f) => self . gc . alloc (Move (ExternFunction :: clone (& f)))",
        "ValueRepr :: Tag (i) => Ok (ValueRepr :: Tag (* i))",
        "ValueRepr :: Byte (i) => Ok (ValueRepr :: Byte (* i))",
        "Int (i) => Ok (Int (* i))",
        "Float (f) => Ok (Float (* f))",
        "ValueRepr :: Userdata (userdata) => userdata . deep_clone (self)",
        "ValueRepr :: Thread (_) => { Err (",
    ] {
        if !inner.contains(frag) {
            return e(format!("deep_clone_inner no longer contains `{}`", frag));
        }
    }

    // ---- memo: which helpers go through the visited map
    let mut memo = BTreeMap::new();
    for (n, kinds) in [
        ("deep_clone_str", "KString"),
        ("deep_clone_data", "KData"),
        ("deep_clone_array", "KArrUnknown | KArrArray | KArrString | KArrPrim | KArrUserdata"),
        ("deep_clone_closure", "KClosure"),
        ("deep_clone_app", "KPapp"),
    ] {
        memo.insert(kinds, body(n).contains("self . deep_clone_ptr ("));
    }
    // deep_clone_ptr itself: lookup first, insert before the fields are cloned
    let ptr = body("deep_clone_ptr");
    for frag in [
        "match self . visited . entry (key)",
        "Entry :: Occupied (entry) => return Ok (Ok (entry . get () . clone_unrooted ()))",
        "entry . insert (value . unrooted ())",
    ] {
        if !ptr.contains(frag) {
            return e(format!("deep_clone_ptr no longer contains `{}`", frag));
        }
    }

    // ---- fields of data / closure / partial application
    if !body("deep_clone_data").contains("for (new , old) in new_fields . iter_mut () . zip (& data_ptr . fields) { * new = self . deep_clone_inner (old) ? ; }") {
        return e("deep_clone_data: fields are no longer filled with deep_clone_inner");
    }
    let clo = body("deep_clone_closure");
    if !clo.contains("gc . alloc (ClosureDataDef (& data . function , data . upvars . iter ()))") {
        return e("deep_clone_closure: the function pointer is no longer copied as it is");
    }
    if !clo.contains("for (new , old) in new_upvars . iter_mut () . zip (& data . upvars) { * new = self . deep_clone_inner (old) ? ; }") {
        return e("deep_clone_closure: upvars are no longer filled with deep_clone_inner");
    }
    let app = body("deep_clone_app");
    for frag in [
        "Callable :: Closure (closure) => Callable :: Closure (self . deep_clone_closure (closure) ?)",
        "Callable :: Extern (ext) => { Callable :: Extern (self . gc . alloc (Move (ExternFunction :: clone (& ext))) ? . unrooted ()) }",
        "for (new , old) in new_args . iter_mut () . zip (& data . args) { * new = self . deep_clone_inner (old) ? ; }",
    ] {
        if !app.contains(frag) {
            return e(format!("deep_clone_app no longer contains `{}`", frag));
        }
    }
    if !body("deep_clone_userdata").contains("ptr . deep_clone (self)") {
        return e("deep_clone_userdata no longer calls Userdata::deep_clone");
    }

    // ---- deep_clone_array: the element table
    let mut ms = Matches(vec![]);
    ms.visit_impl_item_fn(&f["deep_clone_array"]);
    let table: Vec<&syn::ExprMatch> = ms.0.iter().filter(|m| toks(&m.expr) == "new_array . repr ()").collect();
    if table.len() != 1 {
        return e(format!("deep_clone_array: expected one `match new_array.repr()`, found {}", table.len()));
    }
    let mut modes: BTreeMap<String, (&'static str, String)> = BTreeMap::new();
    for arm in &table[0].arms {
        let mut vs = vec![];
        pat_variants(&arm.pat, &mut vs)?;
        let b = toks(&arm.body);
        let m = classify_array_arm(&b)?;
        for var in vs {
            modes.insert(var, (m, b.clone()));
        }
    }
    let need = ["Repr :: Byte", "Repr :: Int", "Repr :: Float", "Repr :: String", "Repr :: Array", "Repr :: Unknown", "Repr :: Userdata", "Repr :: Thread"];
    for n in need {
        if !modes.contains_key(n) {
            return e(format!("deep_clone_array: no arm for {}", n));
        }
    }
    let prim = [modes["Repr :: Byte"].0, modes["Repr :: Int"].0, modes["Repr :: Float"].0];
    if prim.iter().any(|m| *m != "Some FShare") {
        return e("deep_clone_array: arrays of bytes/ints/floats are no longer copied verbatim");
    }
    if modes["Repr :: Thread"].0 != "None" {
        return e("deep_clone_array: arrays of threads are no longer refused");
    }

    let mut s = String::new();
    s.push_str("(* GENERATED by gvh gencoq from /repo/vm/src/value.rs (impl Cloner).  Do not edit. *)\n");
    s.push_str("From Coq Require Import Arith.\nFrom GV Require Import Heap.Heap.\n\n");
    s.push_str("(* does the clone of this kind go through `deep_clone_ptr` (the `visited` map)? *)\nDefinition gen_memo (k : kind) : bool :=\n  match k with\n");
    for (kinds, m) in &memo {
        s.push_str(&format!("  | {} => {}\n", kinds, m));
    }
    s.push_str("  | KExtern => false    (* Function(f) => gc.alloc(Move(ExternFunction::clone(f))) *)\n");
    s.push_str("  | KCell => false      (* Userdata(u) => u.deep_clone(self) : Reference / Lazy allocate a fresh cell *)\n");
    s.push_str("  | KBytecode | KOpaque => false\n  end.\n\n");
    s.push_str("(* elements of an array by representation (deep_clone_array, `match new_array.repr()`):\n");
    for n in need {
        s.push_str(&format!("     {} => {}\n", n, modes[n].1.replace("*)", "* )")));
    }
    s.push_str("   [None]: the clone is refused *)\n");
    s.push_str("Definition gen_array_elem_mode (k : kind) : option fmode :=\n  match k with\n");
    s.push_str(&format!("  | KArrPrim => {}\n", modes["Repr :: Int"].0));
    s.push_str(&format!("  | KArrString => {}\n", modes["Repr :: String"].0));
    s.push_str(&format!("  | KArrArray => {}\n", modes["Repr :: Array"].0));
    s.push_str(&format!("  | KArrUnknown => {}\n", modes["Repr :: Unknown"].0));
    s.push_str(&format!("  | KArrUserdata => {}\n", modes["Repr :: Userdata"].0));
    s.push_str("  | _ => None\n  end.\n\n");
    s.push_str("(* how field [i] of a copied object of kind [k] is produced *)\nDefinition gen_fmode_of (k : kind) (i : nat) : fmode :=\n  match k with\n");
    s.push_str("  | KClosure => if Nat.eqb i 0 then FShare else FInner   (* ClosureDataDef(&data.function, ..); upvars: deep_clone_inner *)\n");
    s.push_str("  | KPapp => if Nat.eqb i 0 then FForce else FInner      (* deep_clone_closure / fresh extern copy; args: deep_clone_inner *)\n");
    s.push_str("  | KArrPrim | KArrString | KArrArray | KArrUnknown | KArrUserdata =>\n      match gen_array_elem_mode k with Some m => m | None => FInner end\n");
    s.push_str("  | _ => FInner                                           (* data fields, cell contents: deep_clone_inner *)\n  end.\n");
    Ok(s)
}
