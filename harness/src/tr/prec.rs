//! base/src/types/mod.rs: `enum Prec` (declaration order = `#[derive(PartialOrd)]` order) and the
//! comparison in the body of `Prec::enclose` -> coq/gen/PrecGen.v.
//!
//! Accepted shape (anything else fails loudly):
//!   #[derive(.., PartialOrd, ..)] pub enum Prec { V0, V1, ... }            (unit variants only)
//!   impl Prec { pub fn enclose(&self, limit: Prec, arena, doc) -> ..
//!       { if *self <cmp> limit { chain![arena, "(", doc, ")"] } else { doc } } }
//! with <cmp> one of `>=`, `>`, `<=`, `<`, `==`, `!=`; the operands may be swapped.
use super::*;
use syn::visit::Visit;

const ITEM: &str = "PrecGen";

#[derive(Default)]
struct Find {
    enums: Vec<syn::ItemEnum>,
    enclose: Vec<syn::ImplItemFn>,
}
impl<'ast> Visit<'ast> for Find {
    fn visit_item_enum(&mut self, i: &'ast syn::ItemEnum) {
        if i.ident == "Prec" {
            self.enums.push(i.clone());
        }
    }
    fn visit_item_impl(&mut self, i: &'ast syn::ItemImpl) {
        if i.trait_.is_none() && toks(&i.self_ty) == "Prec" {
            for it in &i.items {
                if let syn::ImplItem::Fn(f) = it {
                    if f.sig.ident == "enclose" {
                        self.enclose.push(f.clone());
                    }
                }
            }
        }
    }
}

pub struct PrecInfo {
    pub variants: Vec<String>,
    /// comparison operator of `self <op> limit`, normalised so that `self` is on the left
    pub op: String,
    /// true when the parenthesised document is in the `then` branch
    pub paren_in_then: bool,
}

fn swap_op(op: &str) -> &'static str {
    match op {
        ">=" => "<=",
        ">" => "<",
        "<=" => ">=",
        "<" => ">",
        "==" => "==",
        _ => "!=",
    }
}

pub fn info() -> Result<PrecInfo, GenError> {
    let file = parse_file(ITEM, "base/src/types/mod.rs")?;
    let mut v = Find::default();
    v.visit_file(&file);
    if v.enums.len() != 1 {
        return err(ITEM, format!("expected exactly one `enum Prec`, found {}", v.enums.len()));
    }
    if v.enclose.len() != 1 {
        return err(ITEM, format!("expected exactly one `Prec::enclose`, found {}", v.enclose.len()));
    }
    let e = &v.enums[0];
    // the order used by `>=` must be the derived one
    let derives: String = e.attrs.iter().filter(|a| a.path().is_ident("derive")).map(|a| toks(a)).collect::<Vec<_>>().join(" ");
    if !derives.split(|c: char| !c.is_alphanumeric() && c != '_').any(|w| w == "PartialOrd") {
        return err(ITEM, "enum Prec does not derive(PartialOrd) (hand-written order is not translated)");
    }
    if file.items.iter().any(|i| matches!(i, syn::Item::Impl(im) if toks(&im.self_ty) == "Prec"
        && im.trait_.as_ref().map(|t| toks(&t.1).contains("PartialOrd")).unwrap_or(false)))
    {
        return err(ITEM, "hand-written impl PartialOrd for Prec");
    }
    let mut variants = vec![];
    for var in &e.variants {
        if !matches!(var.fields, syn::Fields::Unit) || var.discriminant.is_some() {
            return err(ITEM, format!("variant {} is not a plain unit variant", var.ident));
        }
        variants.push(var.ident.to_string());
    }
    if variants.is_empty() {
        return err(ITEM, "enum Prec has no variants");
    }

    let f = &v.enclose[0];
    let params: Vec<String> = f
        .sig
        .inputs
        .iter()
        .map(|a| match a {
            syn::FnArg::Receiver(_) => "self".to_string(),
            syn::FnArg::Typed(t) => toks(&t.pat),
        })
        .collect();
    if params.len() != 4 || params[0] != "self" {
        return err(ITEM, format!("unexpected parameters of enclose: {:?}", params));
    }
    let (limit, doc) = (params[1].clone(), params[3].clone());
    if f.block.stmts.len() != 1 {
        return err(ITEM, "body of enclose is not a single expression");
    }
    let ifx = match &f.block.stmts[0] {
        syn::Stmt::Expr(syn::Expr::If(i), None) => i,
        _ => return err(ITEM, "body of enclose is not a single `if`"),
    };
    let (l, op, r) = match &*ifx.cond {
        syn::Expr::Binary(b) => (toks(&b.left), toks(&b.op), toks(&b.right)),
        other => return err(ITEM, format!("condition of enclose is not a comparison: {}", toks(other))),
    };
    if !["<", "<=", ">", ">=", "==", "!="].contains(&op.as_str()) {
        return err(ITEM, format!("unknown comparison operator `{}`", op));
    }
    let is_self = |s: &str| s == "* self" || s == "self" || s == "& self";
    let is_limit = |s: &str| s == limit || s == format!("& {}", limit) || s == format!("* {}", limit);
    let op = if is_self(&l) && is_limit(&r) {
        op
    } else if is_limit(&l) && is_self(&r) {
        swap_op(&op).to_string()
    } else {
        return err(ITEM, format!("comparison `{} {} {}` is not between self and `{}`", l, op, r, limit));
    };
    let branch = |b: &syn::Block| -> Result<bool, GenError> {
        let t = toks(b);
        let paren = format!("{{ chain ! [arena , \"(\" , {} , \")\"] }}", doc);
        let plain = format!("{{ {} }}", doc);
        if t == paren {
            Ok(true)
        } else if t == plain {
            Ok(false)
        } else {
            err(ITEM, format!("branch of enclose is neither the document nor its parenthesisation: {}", t))
        }
    };
    let then_paren = branch(&ifx.then_branch)?;
    let else_paren = match &ifx.else_branch {
        Some((_, e)) => match &**e {
            syn::Expr::Block(b) => branch(&b.block)?,
            other => return err(ITEM, format!("else branch of enclose: {}", toks(other))),
        },
        None => return err(ITEM, "enclose has no else branch"),
    };
    if then_paren == else_paren {
        return err(ITEM, "both branches of enclose are the same");
    }
    Ok(PrecInfo { variants, op, paren_in_then: then_paren })
}

pub fn generate() -> GenResult {
    let i = info()?;
    let mut s = String::new();
    s.push_str("(* GENERATED by gvh gencoq from /repo/base/src/types/mod.rs (enum Prec, Prec::enclose). Do not edit. *)\n");
    s.push_str("From Coq Require Import Arith Bool.\n\n");
    s.push_str("(* variants in declaration order: the order #[derive(PartialOrd)] compares by *)\n");
    s.push_str("Inductive prec : Set :=\n");
    for v in &i.variants {
        s.push_str(&format!("  | P{}\n", v));
    }
    s.push_str("  .\n\n");
    s.push_str("Definition prec_index (p : prec) : nat :=\n  match p with\n");
    for (k, v) in i.variants.iter().enumerate() {
        s.push_str(&format!("  | P{} => {}\n", v, k));
    }
    s.push_str("  end.\n\n");
    s.push_str("Definition prec_leb (a b : prec) : bool := Nat.leb (prec_index a) (prec_index b).\n");
    s.push_str("Definition prec_ltb (a b : prec) : bool := Nat.ltb (prec_index a) (prec_index b).\n");
    s.push_str("Definition prec_eqb (a b : prec) : bool := Nat.eqb (prec_index a) (prec_index b).\n\n");
    let cmp = match i.op.as_str() {
        ">=" => "prec_leb limit self",
        ">" => "prec_ltb limit self",
        "<=" => "prec_leb self limit",
        "<" => "prec_ltb self limit",
        "==" => "prec_eqb self limit",
        _ => "negb (prec_eqb self limit)",
    };
    s.push_str(&format!("(* Prec::enclose: `if *self {} limit {{ {} }} else {{ {} }}`;\n", i.op,
        if i.paren_in_then { "\"(\" doc \")\"" } else { "doc" }, if i.paren_in_then { "doc" } else { "\"(\" doc \")\"" }));
    s.push_str("   [enclose self limit] = true iff the document is wrapped in parentheses *)\n");
    s.push_str(&format!(
        "Definition enclose (self limit : prec) : bool := {}.\n",
        if i.paren_in_then { cmp.to_string() } else { format!("negb ({})", cmp) }
    ));
    Ok(s)
}
