//! std/map.glu and std/list.glu -> coq/gen/MapGen.v, coq/gen/ListGen.v (tie T of C19).
//!
//! The sources are parsed with gluon's own parser (`gluon_parser::parse_partial_root_expr`); the
//! translator then accepts one narrow shape and fails loudly (`fail <Item> <reason>`) otherwise:
//!
//!  * a variant type declaration `type T a.. = | C t.. | ..` whose argument types are type
//!    variables or applications of T itself                          -> `Inductive`
//!  * a top-level (or `semigroup`-local) binding with a type annotation
//!    `[Ord k] -> t1 -> .. -> tn -> r` (the implicit part optional, `Ord` the only class) whose
//!    body is built from: variables, constructors, application, lambda, `match` on variants /
//!    tuples, `if`, local plain `let` (identifier or tuple pattern), tuples, punned records
//!    (rendered as tuples in source field order) and chains of the one infix operator `<>`
//!    (fixity read from std/semigroup.glu; in std/list.glu `<>` at type `List a` is the local
//!    `semigroup.append`, which is translated as `append`)
//!  * a self-recursive function must be `match <parameter> with ..` at the top.  When every
//!    recursive call passes a variable bound by a pattern of that match in the parameter's
//!    position it becomes a structural `Fixpoint ... {struct p}`; otherwise a fuelled
//!    `Fixpoint f_fuel (fuel : nat) ..` returning `fuelled r` (`OutOfFuel` a distinct outcome),
//!    the recursive calls being sequenced left to right (Gluon is strict, the functions pure)
//!  * the implicit `[Ord k]` argument is the Section variable `compare : ty_k -> ty_k -> comparison`;
//!    a free use of `compare` (imported from std.cmp) is that variable.
//!
//! Name mapping (glue, trusted): Cons/Nil -> cons/nil of Coq `list`, Some/None -> `option`,
//! LT/EQ/GT -> Lt/Eq/Gt of `comparison`, True/False -> `bool`; type variable `a` -> `ty_a`.
use super::*;
use gluon_base::ast::{Expr, Pattern, PatternField, RootExpr, SpannedExpr, SpannedPattern, ValueBinding, ValueBindings};
use gluon_base::symbol::{Symbol, SymbolModule, Symbols};
use gluon_base::types::{ArgType, Type, TypeCache};
use std::collections::{BTreeMap, BTreeSet};

type E<'a, 'ast> = &'a SpannedExpr<'ast, Symbol>;
type B<'a, 'ast> = &'a ValueBinding<'ast, Symbol>;
type AT<'ast> = gluon_base::ast::AstType<'ast, Symbol>;

// ---------------------------------------------------------------------------------------------
// intermediate representation

#[derive(Clone, Debug, PartialEq)]
enum Ty {
    Var(String),
    Con(String, Vec<Ty>),
    Fun(Box<Ty>, Box<Ty>),
    Tuple(Vec<Ty>),
}

#[derive(Clone, Debug)]
enum Pat {
    Var(String),
    Wild,
    Ctor(String, Vec<Pat>),
    Tuple(Vec<Pat>),
}

#[derive(Clone, Debug)]
enum Tm {
    Var(String),
    /// a global of the generated file, a constructor or the section variable `compare`
    Glob(String),
    App(Box<Tm>, Vec<Tm>),
    Lam(Vec<String>, Box<Tm>),
    Match(Box<Tm>, Vec<(Pat, Tm)>),
    If(Box<Tm>, Box<Tm>, Box<Tm>),
    Let(Pat, Box<Tm>, Box<Tm>),
    Tuple(Vec<Tm>),
}

enum Kind {
    Plain,
    Structural(usize),
    Fuelled,
}

struct Fun {
    name: String,
    ty_params: Vec<String>,
    params: Vec<(String, Ty)>,
    ret: Ty,
    body: Tm,
    kind: Kind,
}

struct Ind {
    name: String,
    params: Vec<String>,
    ctors: Vec<(String, Vec<Ty>)>,
}

// ---------------------------------------------------------------------------------------------
// parsing with gluon's parser

fn parse_glu(item: &str, rel: &str) -> Result<RootExpr<Symbol>, GenError> {
    let src = read_repo(rel);
    let mut symbols = Symbols::new();
    let mut module = SymbolModule::new(rel.trim_end_matches(".glu").replace('/', ".").into(), &mut symbols);
    match gluon_parser::parse_partial_root_expr(&mut module, &TypeCache::new(), &src[..]) {
        Ok(e) => Ok(e),
        Err((_, errs)) => err(item, format!("{} does not parse: {}", rel, errs.to_string().replace('\n', " "))),
    }
}

struct Top<'a, 'ast> {
    values: Vec<B<'a, 'ast>>,
    types: Vec<&'a gluon_base::ast::TypeBinding<'ast, Symbol>>,
}

fn collect_top<'a, 'ast>(mut e: E<'a, 'ast>) -> Top<'a, 'ast> {
    let mut top = Top { values: vec![], types: vec![] };
    loop {
        match &e.value {
            Expr::LetBindings(bs, body) => {
                match bs {
                    ValueBindings::Plain(b) => top.values.push(&**b),
                    ValueBindings::Recursive(bs) => top.values.extend(bs.iter()),
                }
                e = &**body;
            }
            Expr::TypeBindings(ts, body) => {
                top.types.extend(ts.iter());
                e = &**body;
            }
            _ => return top,
        }
    }
}

fn sym(s: &Symbol) -> String {
    s.declared_name().to_string()
}

fn binding_name(b: B) -> Option<String> {
    match &b.name.value {
        Pattern::Ident(id) => Some(sym(&id.name)),
        _ => None,
    }
}

// ---------------------------------------------------------------------------------------------
// the translator proper

struct Tr<'a, 'ast> {
    item: &'static str,
    /// Gluon constructor / type names -> Coq names
    ctor_map: BTreeMap<String, String>,
    type_map: BTreeMap<String, String>,
    /// type variable of the `[Ord _]` constraint (the Section's ordered type), fixed per item
    ord_var: Option<String>,
    /// does the function being translated have the `[Ord _]` argument
    cur_has_ord: bool,
    /// translated globals (Gluon name -> Coq name)
    globals: BTreeMap<String, String>,
    /// annotation-less aliases `let empty = Tip`
    aliases: BTreeMap<String, String>,
    /// does the file import `compare` from std.cmp
    has_compare: bool,
    /// (fixity is left?) of `<>` read from std/semigroup.glu, and the Coq function it denotes here
    append_op: Option<(bool, String)>,
    top: Top<'a, 'ast>,
}

const COQ_KEYWORDS: &[&str] = &[
    "as", "at", "cofix", "else", "end", "exists", "exists2", "fix", "for", "forall", "fun", "if", "IF", "in", "let", "match", "mod",
    "return", "then", "using", "where", "with", "Prop", "Set", "Type", "SProp", "fuel", "fuel'",
];

fn coq_ident(s: &str) -> String {
    let mut t: String = s.chars().map(|c| if c.is_ascii_alphanumeric() || c == '_' || c == '\'' { c } else { '_' }).collect();
    if COQ_KEYWORDS.contains(&t.as_str()) || t.starts_with("ty_") || t.starts_with("r_rec") {
        t.push('_');
    }
    t
}

impl<'a, 'ast> Tr<'a, 'ast> {
    fn fail<T>(&self, what: &str, msg: impl Into<String>) -> Result<T, GenError> {
        err(self.item, format!("{}: {}", what, msg.into()))
    }

    fn find_value(&self, name: &str) -> Option<B<'a, 'ast>> {
        // the last top-level binding of that name (later bindings shadow earlier ones)
        self.top.values.iter().rev().find(|b| binding_name(b).as_deref() == Some(name)).copied()
    }

    // ---- types ----
    fn ty(&self, what: &str, t: &AT<'ast>) -> Result<Ty, GenError> {
        match &**t {
            Type::Ident(id) => {
                let n = sym(&id.name);
                if n.starts_with(char::is_lowercase) {
                    Ok(Ty::Var(n))
                } else {
                    match self.type_map.get(&n) {
                        Some(c) => Ok(Ty::Con(c.clone(), vec![])),
                        None => self.fail(what, format!("unknown type `{}`", n)),
                    }
                }
            }
            Type::Generic(g) => Ok(Ty::Var(sym(&g.id))),
            Type::App(f, args) => {
                let head = match &**f {
                    Type::Ident(id) => sym(&id.name),
                    _ => return self.fail(what, "type application whose head is not a name"),
                };
                let c = match self.type_map.get(&head) {
                    Some(c) => c.clone(),
                    None => return self.fail(what, format!("unknown type constructor `{}`", head)),
                };
                let mut v = vec![];
                for a in args.iter() {
                    v.push(self.ty(what, a)?);
                }
                Ok(Ty::Con(c, v))
            }
            Type::Function(ArgType::Explicit, a, r) => Ok(Ty::Fun(Box::new(self.ty(what, a)?), Box::new(self.ty(what, r)?))),
            Type::Function(_, _, _) => self.fail(what, "implicit argument in a nested position"),
            Type::Record(row) => {
                // records and tuples: a product in source field order
                let mut v = vec![];
                let mut row = row;
                loop {
                    match &**row {
                        Type::ExtendRow { fields, rest } => {
                            for f in fields.iter() {
                                v.push(self.ty(what, &f.typ)?);
                            }
                            row = rest;
                        }
                        Type::EmptyRow => break,
                        _ => return self.fail(what, "record type with type fields or an open row"),
                    }
                }
                if v.len() < 2 {
                    return self.fail(what, "record type with fewer than two fields");
                }
                Ok(Ty::Tuple(v))
            }
            _ => self.fail(what, "type outside the accepted shape (variables, applications, functions, records)"),
        }
    }

    /// Splits `[Ord k] -> t1 -> .. -> tn -> r` into (uses Ord, [t1..tn], r) for n = nargs.
    fn signature(&mut self, what: &str, t: &AT<'ast>, nargs: usize) -> Result<(Vec<Ty>, Ty), GenError> {
        let mut t = t;
        while let Type::Function(ArgType::Implicit, a, r) = &**t {
            // only `[Ord x]` is accepted
            let ok = match &**a {
                Type::App(f, args) if args.len() == 1 => match (&**f, &*args[0]) {
                    (Type::Ident(c), Type::Ident(v)) if sym(&c.name) == "Ord" => Some(sym(&v.name)),
                    (Type::Ident(c), Type::Generic(v)) if sym(&c.name) == "Ord" => Some(sym(&v.id)),
                    _ => None,
                },
                _ => None,
            };
            match ok {
                Some(v) => {
                    if self.ord_var.as_ref() != Some(&v) {
                        return self.fail(what, format!("`[Ord {}]` but the section's ordered type variable is `{:?}`", v, self.ord_var));
                    }
                    self.cur_has_ord = true;
                }
                None => return self.fail(what, "implicit argument other than `[Ord x]`"),
            }
            t = r;
        }
        let mut ps = vec![];
        for _ in 0..nargs {
            match &**t {
                Type::Function(ArgType::Explicit, a, r) => {
                    ps.push(self.ty(what, a)?);
                    t = r;
                }
                _ => return self.fail(what, "fewer arrows in the type annotation than parameters"),
            }
        }
        Ok((ps, self.ty(what, t)?))
    }

    /// The type variable `x` of the first `[Ord x]` found in the annotations of `names`.
    fn find_ord_var(&self, names: &[&str]) -> Option<String> {
        for n in names {
            if let Some(t) = self.find_value(n).and_then(|b| b.typ.as_ref()) {
                let mut t = t;
                while let Type::Function(ArgType::Implicit, a, r) = &**t {
                    if let Type::App(f, args) = &**a {
                        if args.len() == 1 && matches!(&**f, Type::Ident(c) if sym(&c.name) == "Ord") {
                            match &*args[0] {
                                Type::Ident(v) => return Some(sym(&v.name)),
                                Type::Generic(v) => return Some(sym(&v.id)),
                                _ => {}
                            }
                        }
                    }
                    t = r;
                }
            }
        }
        None
    }

    // ---- type declarations ----
    fn inductive(&self, gl_name: &str, coq_name: &str) -> Result<Ind, GenError> {
        let what = format!("type {}", gl_name);
        let tb = match self.top.types.iter().find(|t| sym(&t.name.value) == gl_name) {
            Some(t) => *t,
            None => return self.fail(&what, "declaration not found"),
        };
        let params: Vec<String> = tb.alias.value.params().iter().map(|g| sym(&g.id)).collect();
        let body = tb.alias.value.unresolved_type();
        let row = match &**body {
            Type::Variant(row) => row,
            _ => return self.fail(&what, "not a variant type"),
        };
        let fields = match &**row {
            Type::ExtendRow { fields, rest } if matches!(&**rest, Type::EmptyRow) => fields,
            _ => return self.fail(&what, "open or empty variant row"),
        };
        let mut me = self.type_map.clone();
        me.insert(gl_name.to_string(), coq_name.to_string());
        let mut inner = self.shallow();
        inner.type_map = me;
        let mut ctors = vec![];
        for f in fields.iter() {
            let mut args = vec![];
            let mut t = &f.typ;
            loop {
                match &**t {
                    Type::Function(ArgType::Constructor, a, r) => {
                        let a = inner.ty(&what, a)?;
                        // recursive occurrences must be the type applied to its own parameters
                        if let Ty::Con(c, xs) = &a {
                            if c == coq_name && *xs != params.iter().map(|p| Ty::Var(p.clone())).collect::<Vec<_>>() {
                                return self.fail(&what, "non-uniform recursive occurrence");
                            }
                        }
                        args.push(a);
                        t = r;
                    }
                    Type::Opaque => break,
                    _ => return self.fail(&what, "constructor in GADT form"),
                }
            }
            ctors.push((sym(&f.name.value), args));
        }
        Ok(Ind { name: coq_name.to_string(), params, ctors })
    }

    fn shallow(&self) -> Box<Tr<'a, 'ast>> {
        Box::new(Tr {
            item: self.item,
            ctor_map: self.ctor_map.clone(),
            type_map: self.type_map.clone(),
            ord_var: self.ord_var.clone(),
            cur_has_ord: self.cur_has_ord,
            globals: self.globals.clone(),
            aliases: self.aliases.clone(),
            has_compare: self.has_compare,
            append_op: self.append_op.clone(),
            top: Top { values: vec![], types: vec![] },
        })
    }

    // ---- patterns ----
    fn pat(&self, what: &str, p: &SpannedPattern<'ast, Symbol>, bound: &mut Vec<String>) -> Result<Pat, GenError> {
        match &p.value {
            Pattern::Ident(id) => {
                let n = sym(&id.name);
                if n == "_" || n.starts_with('_') {
                    Ok(Pat::Wild)
                } else if n.starts_with(char::is_uppercase) {
                    match self.ctor_map.get(&n) {
                        Some(c) => Ok(Pat::Ctor(c.clone(), vec![])),
                        None => self.fail(what, format!("unknown constructor `{}` in a pattern", n)),
                    }
                } else {
                    bound.push(n.clone());
                    Ok(Pat::Var(n))
                }
            }
            Pattern::Constructor(id, args) => {
                let n = sym(&id.name);
                let c = match self.ctor_map.get(&n) {
                    Some(c) => c.clone(),
                    None => return self.fail(what, format!("unknown constructor `{}` in a pattern", n)),
                };
                let mut v = vec![];
                for a in args.iter() {
                    v.push(self.pat(what, a, bound)?);
                }
                Ok(Pat::Ctor(c, v))
            }
            Pattern::Tuple { elems, .. } => {
                let mut v = vec![];
                for a in elems.iter() {
                    v.push(self.pat(what, a, bound)?);
                }
                if v.len() == 1 {
                    return Ok(v.pop().unwrap());
                }
                Ok(Pat::Tuple(v))
            }
            _ => self.fail(what, "pattern outside the accepted shape (identifier, constructor, tuple)"),
        }
    }

    // ---- expressions ----
    fn tm(&self, what: &str, e: E<'_, 'ast>, env: &Vec<String>) -> Result<Tm, GenError> {
        match &e.value {
            Expr::Ident(id) => {
                let n = sym(&id.name);
                if env.contains(&n) {
                    return Ok(Tm::Var(n));
                }
                if let Some(c) = self.ctor_map.get(&n) {
                    return Ok(Tm::Glob(c.clone()));
                }
                if let Some(c) = self.aliases.get(&n) {
                    return Ok(Tm::Glob(c.clone()));
                }
                if let Some(c) = self.globals.get(&n) {
                    return Ok(Tm::Glob(c.clone()));
                }
                if n == "compare" && self.has_compare {
                    if !self.cur_has_ord {
                        return self.fail(what, "`compare` used without an `[Ord _]` argument in scope");
                    }
                    return Ok(Tm::Glob("compare".into()));
                }
                self.fail(what, format!("free identifier `{}` is not a translated definition", n))
            }
            Expr::App { func, implicit_args, args } => {
                if !implicit_args.is_empty() {
                    return self.fail(what, "explicit implicit argument");
                }
                let f = self.tm(what, func, env)?;
                let mut v = vec![];
                for a in args.iter() {
                    v.push(self.tm(what, a, env)?);
                }
                Ok(match f {
                    Tm::App(g, mut pre) => {
                        pre.extend(v);
                        Tm::App(g, pre)
                    }
                    f => Tm::App(Box::new(f), v),
                })
            }
            Expr::Lambda(l) => {
                let mut env2 = env.clone();
                let mut ps = vec![];
                for a in l.args.iter() {
                    if a.arg_type != ArgType::Explicit {
                        return self.fail(what, "implicit lambda parameter");
                    }
                    let n = sym(&a.name.value.name);
                    env2.push(n.clone());
                    ps.push(n);
                }
                Ok(Tm::Lam(ps, Box::new(self.tm(what, l.body, &env2)?)))
            }
            Expr::IfElse(c, t, f) => Ok(Tm::If(Box::new(self.tm(what, c, env)?), Box::new(self.tm(what, t, env)?), Box::new(self.tm(what, f, env)?))),
            Expr::Match(s, alts) => {
                let s = self.tm(what, s, env)?;
                let mut v = vec![];
                for a in alts.iter() {
                    let mut env2 = env.clone();
                    let p = self.pat(what, &a.pattern, &mut env2)?;
                    v.push((p, self.tm(what, &a.expr, &env2)?));
                }
                Ok(Tm::Match(Box::new(s), v))
            }
            Expr::Tuple { elems, .. } => {
                if elems.len() == 1 {
                    return self.tm(what, &elems[0], env);
                }
                let mut v = vec![];
                for a in elems.iter() {
                    v.push(self.tm(what, a, env)?);
                }
                if v.is_empty() {
                    return self.fail(what, "unit value");
                }
                Ok(Tm::Tuple(v))
            }
            Expr::Record { types, exprs, base, .. } => {
                if !types.is_empty() || base.is_some() || exprs.len() < 2 {
                    return self.fail(what, "record with type fields, a base or fewer than two fields");
                }
                let mut v = vec![];
                for f in exprs.iter() {
                    let n = sym(&f.name.value);
                    match &f.value {
                        Some(e) => v.push(self.tm(what, e, env)?),
                        None => {
                            if !env.contains(&n) {
                                return self.fail(what, format!("punned record field `{}` is not a local variable", n));
                            }
                            v.push(Tm::Var(n))
                        }
                    }
                }
                Ok(Tm::Tuple(v))
            }
            Expr::LetBindings(ValueBindings::Plain(b), body) => {
                if !b.args.is_empty() {
                    return self.fail(what, "local function definition");
                }
                let rhs = self.tm(what, &b.expr, env)?;
                let mut env2 = env.clone();
                let p = self.pat(what, &b.name, &mut env2)?;
                Ok(Tm::Let(p, Box::new(rhs), Box::new(self.tm(what, body, &env2)?)))
            }
            Expr::Infix { lhs, op, rhs, implicit_args } => {
                if !implicit_args.is_empty() {
                    return self.fail(what, "explicit implicit argument");
                }
                // The parser leaves operator chains right-nested; re-associate a chain of the one
                // operator we know by its declared fixity.
                let opn = sym(&op.value.name);
                let (left, f) = match (&self.append_op, opn.as_str()) {
                    (Some((l, f)), "<>") => (*l, f.clone()),
                    _ => return self.fail(what, format!("infix operator `{}`", opn)),
                };
                let mut operands = vec![self.tm(what, lhs, env)?];
                let mut cur: E = rhs;
                loop {
                    match &cur.value {
                        Expr::Infix { lhs: l2, op: op2, rhs: r2, .. } => {
                            if sym(&op2.value.name) != opn {
                                return self.fail(what, "chain of different infix operators");
                            }
                            operands.push(self.tm(what, l2, env)?);
                            cur = r2;
                        }
                        _ => {
                            operands.push(self.tm(what, cur, env)?);
                            break;
                        }
                    }
                }
                let g = || Box::new(Tm::Glob(f.clone()));
                Ok(if left {
                    let mut it = operands.into_iter();
                    let mut acc = it.next().unwrap();
                    for x in it {
                        acc = Tm::App(g(), vec![acc, x]);
                    }
                    acc
                } else {
                    let mut it = operands.into_iter().rev();
                    let mut acc = it.next().unwrap();
                    for x in it {
                        acc = Tm::App(g(), vec![x, acc]);
                    }
                    acc
                })
            }
            Expr::Annotated(e, _) => self.tm(what, e, env),
            other => self.fail(what, format!("expression form `{}` is outside the accepted shape", other.kind())),
        }
    }

    /// Translate the binding `gl_name` (searched in `scope`, default: top level) as Coq `coq_name`.
    fn function(&mut self, gl_name: &str, coq_name: &str, b: Option<B<'a, 'ast>>) -> Result<Fun, GenError> {
        let what = format!("let {}", gl_name);
        let b = match b.or_else(|| self.find_value(gl_name)) {
            Some(b) => b,
            None => return self.fail(&what, "binding not found"),
        };
        let typ = match &b.typ {
            Some(t) => t,
            None => return self.fail(&what, "no type annotation"),
        };
        let mut params = vec![];
        for a in b.args.iter() {
            if a.arg_type != ArgType::Explicit {
                return self.fail(&what, "implicit parameter binder");
            }
            params.push(sym(&a.name.value.name));
        }
        self.cur_has_ord = false;
        let (ptys, ret) = self.signature(&what, typ, params.len())?;
        // the function itself is in scope in its body (rec let, or plain let with arguments)
        let mut me = self.shallow();
        me.globals.insert(gl_name.to_string(), coq_name.to_string());
        let body = me.tm(&what, &b.expr, &params)?;
        // type parameters: free type variables except the section's ordered one
        let mut tvs = BTreeSet::new();
        for t in ptys.iter().chain(std::iter::once(&ret)) {
            free_tyvars(t, &mut tvs);
        }
        if let Some(o) = &self.ord_var {
            tvs.remove(o);
        }
        let recursive = mentions(&body, coq_name);
        let kind = if !recursive {
            Kind::Plain
        } else {
            // shape: match <param> with ...
            let (p, alts) = match &body {
                Tm::Match(s, alts) => match &**s {
                    Tm::Var(p) if params.contains(p) => (p.clone(), alts),
                    _ => return self.fail(&what, "recursive function whose body is not `match <parameter> with`"),
                },
                _ => return self.fail(&what, "recursive function whose body is not `match <parameter> with`"),
            };
            let idx = params.iter().position(|x| *x == p).unwrap();
            let mut structural = true;
            for (pat, rhs) in alts {
                let mut sub = vec![];
                pat_vars_direct(pat, &mut sub);
                let mut calls = vec![];
                rec_calls(rhs, coq_name, &mut calls);
                for args in calls {
                    match args.get(idx) {
                        Some(Tm::Var(v)) if sub.contains(v) && !rebinds(rhs, v) => {}
                        Some(_) => structural = false,
                        None => return self.fail(&what, "recursive call not applied to its matched argument"),
                    }
                }
            }
            if structural { Kind::Structural(idx) } else { Kind::Fuelled }
        };
        self.globals.insert(gl_name.to_string(), coq_name.to_string());
        Ok(Fun { name: coq_name.to_string(), ty_params: tvs.into_iter().collect(), params: params.into_iter().zip(ptys).collect(), ret, body, kind })
    }
}

fn free_tyvars(t: &Ty, out: &mut BTreeSet<String>) {
    match t {
        Ty::Var(v) => {
            out.insert(v.clone());
        }
        Ty::Con(_, xs) | Ty::Tuple(xs) => xs.iter().for_each(|x| free_tyvars(x, out)),
        Ty::Fun(a, b) => {
            free_tyvars(a, out);
            free_tyvars(b, out)
        }
    }
}

fn mentions(t: &Tm, g: &str) -> bool {
    match t {
        Tm::Var(_) => false,
        Tm::Glob(n) => n == g,
        Tm::App(f, xs) => mentions(f, g) || xs.iter().any(|x| mentions(x, g)),
        Tm::Lam(_, b) => mentions(b, g),
        Tm::Match(s, alts) => mentions(s, g) || alts.iter().any(|(_, r)| mentions(r, g)),
        Tm::If(a, b, c) => mentions(a, g) || mentions(b, g) || mentions(c, g),
        Tm::Let(_, a, b) => mentions(a, g) || mentions(b, g),
        Tm::Tuple(xs) => xs.iter().any(|x| mentions(x, g)),
    }
}

/// Argument lists of the applications of global `g` in `t`; a bare (unapplied) mention yields `[]`.
fn rec_calls(t: &Tm, g: &str, out: &mut Vec<Vec<Tm>>) {
    match t {
        Tm::Var(_) => {}
        Tm::Glob(n) => {
            if n == g {
                out.push(vec![])
            }
        }
        Tm::App(f, xs) => {
            match &**f {
                Tm::Glob(n) if n == g => out.push(xs.clone()),
                f => rec_calls(f, g, out),
            }
            xs.iter().for_each(|x| rec_calls(x, g, out));
        }
        Tm::Lam(_, b) => rec_calls(b, g, out),
        Tm::Match(s, alts) => {
            rec_calls(s, g, out);
            alts.iter().for_each(|(_, r)| rec_calls(r, g, out))
        }
        Tm::If(a, b, c) => {
            rec_calls(a, g, out);
            rec_calls(b, g, out);
            rec_calls(c, g, out)
        }
        Tm::Let(_, a, b) => {
            rec_calls(a, g, out);
            rec_calls(b, g, out)
        }
        Tm::Tuple(xs) => xs.iter().for_each(|x| rec_calls(x, g, out)),
    }
}

/// variables bound as direct arguments of the top constructor of a pattern
fn pat_vars_direct(p: &Pat, out: &mut Vec<String>) {
    if let Pat::Ctor(_, args) = p {
        for a in args {
            if let Pat::Var(v) = a {
                out.push(v.clone());
            }
        }
    }
}

fn pat_binds(p: &Pat, v: &str) -> bool {
    match p {
        Pat::Var(x) => x == v,
        Pat::Wild => false,
        Pat::Ctor(_, xs) | Pat::Tuple(xs) => xs.iter().any(|x| pat_binds(x, v)),
    }
}

/// does `t` bind the name `v` again anywhere (then a call on `v` may not be on the sub-term)
fn rebinds(t: &Tm, v: &str) -> bool {
    match t {
        Tm::Var(_) | Tm::Glob(_) => false,
        Tm::App(f, xs) => rebinds(f, v) || xs.iter().any(|x| rebinds(x, v)),
        Tm::Lam(ps, b) => ps.iter().any(|p| p == v) || rebinds(b, v),
        Tm::Match(s, alts) => rebinds(s, v) || alts.iter().any(|(p, r)| pat_binds(p, v) || rebinds(r, v)),
        Tm::If(a, b, c) => rebinds(a, v) || rebinds(b, v) || rebinds(c, v),
        Tm::Let(p, a, b) => pat_binds(p, v) || rebinds(a, v) || rebinds(b, v),
        Tm::Tuple(xs) => xs.iter().any(|x| rebinds(x, v)),
    }
}

// ---------------------------------------------------------------------------------------------
// Coq printer

fn p_ty(t: &Ty, prec: u8, ord: &Option<String>) -> String {
    // prec: 0 = top / right of arrow, 1 = left of arrow / tuple component, 2 = argument
    let _ = ord;
    match t {
        Ty::Var(v) => format!("ty_{}", coq_ident(v)),
        Ty::Con(c, xs) if xs.is_empty() => c.clone(),
        Ty::Con(c, xs) => {
            let s = format!("{} {}", c, xs.iter().map(|x| p_ty(x, 2, ord)).collect::<Vec<_>>().join(" "));
            if prec >= 2 { format!("({})", s) } else { s }
        }
        Ty::Fun(a, b) => {
            let s = format!("{} -> {}", p_ty(a, 1, ord), p_ty(b, 0, ord));
            if prec >= 1 { format!("({})", s) } else { s }
        }
        Ty::Tuple(xs) => format!("({})%type", xs.iter().map(|x| p_ty(x, 1, ord)).collect::<Vec<_>>().join(" * ")),
    }
}

fn p_pat(p: &Pat, top: bool) -> String {
    match p {
        Pat::Var(v) => coq_ident(v),
        Pat::Wild => "_".into(),
        Pat::Ctor(c, xs) if xs.is_empty() => c.clone(),
        Pat::Ctor(c, xs) => {
            let s = format!("{} {}", c, xs.iter().map(|x| p_pat(x, false)).collect::<Vec<_>>().join(" "));
            if top { s } else { format!("({})", s) }
        }
        Pat::Tuple(xs) => format!("({})", xs.iter().map(|x| p_pat(x, true)).collect::<Vec<_>>().join(", ")),
    }
}

fn ind(n: usize) -> String {
    "  ".repeat(n)
}

/// atom = printed as an application argument
fn p_tm(t: &Tm, depth: usize, atom: bool) -> String {
    let par = |s: String| if atom { format!("({})", s) } else { s };
    match t {
        Tm::Var(v) => coq_ident(v),
        Tm::Glob(g) => g.clone(),
        Tm::App(f, xs) => par(format!("{} {}", p_tm(f, depth, true), xs.iter().map(|x| p_tm(x, depth, true)).collect::<Vec<_>>().join(" "))),
        Tm::Lam(ps, b) => par(format!("fun {} => {}", ps.iter().map(|p| coq_ident(p)).collect::<Vec<_>>().join(" "), p_tm(b, depth, false))),
        Tm::Tuple(xs) => format!("({})", xs.iter().map(|x| p_tm(x, depth, false)).collect::<Vec<_>>().join(", ")),
        Tm::If(c, a, b) => par(format!(
            "if {} then {}\n{}else {}",
            p_tm(c, depth, false),
            p_tm(a, depth + 1, false),
            ind(depth),
            p_tm(b, depth + 1, false)
        )),
        Tm::Let(p, a, b) => {
            let lhs = match p {
                Pat::Var(v) => coq_ident(v),
                Pat::Wild => "_".into(),
                p => format!("'{}", p_pat(p, false)),
            };
            par(format!("let {} := {} in\n{}{}", lhs, p_tm(a, depth + 1, false), ind(depth), p_tm(b, depth, false)))
        }
        Tm::Match(s, alts) => {
            let mut out = format!("match {} with", p_tm(s, depth, false));
            for (p, r) in alts {
                out.push_str(&format!("\n{}| {} =>\n{}{}", ind(depth), p_pat(p, true), ind(depth + 2), p_tm(r, depth + 2, false)));
            }
            out.push_str(&format!("\n{}end", ind(depth)));
            out
        }
    }
}

// ---- fuelled (monadic) form of a non-structural recursive body ----

/// Replace, left to right, the applications of `g` in a leaf expression by fresh variables.
fn hoist(t: &Tm, g: &str, g_fuel: &str, item: &str, what: &str, binds: &mut Vec<(String, Tm)>, under_binder: bool) -> Result<Tm, GenError> {
    Ok(match t {
        Tm::Var(_) => t.clone(),
        Tm::Glob(n) => {
            if n == g {
                return err(item, format!("{}: unapplied mention of the non-structural function", what));
            }
            t.clone()
        }
        Tm::App(f, xs) => {
            let is_rec = matches!(&**f, Tm::Glob(n) if n == g);
            let mut ys = vec![];
            for x in xs {
                ys.push(hoist(x, g, g_fuel, item, what, binds, under_binder)?);
            }
            if is_rec {
                if under_binder {
                    return err(item, format!("{}: non-structural recursive call under a lambda or inside a nested match/if", what));
                }
                let v = format!("r_rec{}", binds.len() + 1);
                let mut args = vec![Tm::Glob("fuel'".into())];
                args.extend(ys);
                binds.push((v.clone(), Tm::App(Box::new(Tm::Glob(g_fuel.to_string())), args)));
                Tm::Glob(v)
            } else {
                Tm::App(Box::new(hoist(f, g, g_fuel, item, what, binds, under_binder)?), ys)
            }
        }
        Tm::Tuple(xs) => {
            let mut ys = vec![];
            for x in xs {
                ys.push(hoist(x, g, g_fuel, item, what, binds, under_binder)?);
            }
            Tm::Tuple(ys)
        }
        Tm::Lam(ps, b) => Tm::Lam(ps.clone(), Box::new(hoist(b, g, g_fuel, item, what, binds, true)?)),
        Tm::Match(s, alts) => {
            let s2 = hoist(s, g, g_fuel, item, what, binds, under_binder)?;
            let mut v = vec![];
            for (p, r) in alts {
                v.push((p.clone(), hoist(r, g, g_fuel, item, what, binds, true)?));
            }
            Tm::Match(Box::new(s2), v)
        }
        Tm::If(c, a, b) => Tm::If(
            Box::new(hoist(c, g, g_fuel, item, what, binds, under_binder)?),
            Box::new(hoist(a, g, g_fuel, item, what, binds, true)?),
            Box::new(hoist(b, g, g_fuel, item, what, binds, true)?),
        ),
        Tm::Let(p, a, b) => Tm::Let(
            p.clone(),
            Box::new(hoist(a, g, g_fuel, item, what, binds, under_binder)?),
            Box::new(hoist(b, g, g_fuel, item, what, binds, true)?),
        ),
    })
}

/// Print `t` (in tail position of the fuelled function) as a term of type `fuelled _`.
fn p_fuelled(t: &Tm, g: &str, g_fuel: &str, item: &str, what: &str, depth: usize) -> Result<String, GenError> {
    match t {
        Tm::Match(s, alts) if !mentions(s, g) => {
            let mut out = format!("match {} with", p_tm(s, depth, false));
            for (p, r) in alts {
                out.push_str(&format!("\n{}| {} =>\n{}{}", ind(depth), p_pat(p, true), ind(depth + 2), p_fuelled(r, g, g_fuel, item, what, depth + 2)?));
            }
            out.push_str(&format!("\n{}end", ind(depth)));
            Ok(out)
        }
        Tm::If(c, a, b) if !mentions(c, g) => Ok(format!(
            "if {} then {}\n{}else {}",
            p_tm(c, depth, false),
            p_fuelled(a, g, g_fuel, item, what, depth + 1)?,
            ind(depth),
            p_fuelled(b, g, g_fuel, item, what, depth + 1)?
        )),
        Tm::Let(p, a, b) if !mentions(a, g) => {
            let lhs = match p {
                Pat::Var(v) => coq_ident(v),
                Pat::Wild => "_".into(),
                p => format!("'{}", p_pat(p, false)),
            };
            Ok(format!("let {} := {} in\n{}{}", lhs, p_tm(a, depth + 1, false), ind(depth), p_fuelled(b, g, g_fuel, item, what, depth)?))
        }
        leaf => {
            let mut binds = vec![];
            let leaf2 = hoist(leaf, g, g_fuel, item, what, &mut binds, false)?;
            let mut out = String::new();
            let mut d = depth;
            for (v, call) in &binds {
                out.push_str(&format!("match {} with\n{}| OutOfFuel => OutOfFuel\n{}| Done {} =>\n{}", p_tm(call, d, false), ind(d), ind(d), v, ind(d + 2)));
                d += 2;
            }
            out.push_str(&format!("Done {}", p_tm(&leaf2, d, true)));
            for i in (0..binds.len()).rev() {
                out.push_str(&format!("\n{}end", ind(depth + 2 * i)));
            }
            Ok(out)
        }
    }
}

fn p_fun(f: &Fun, item: &str, ord: &Option<String>) -> Result<String, GenError> {
    let typs = if f.ty_params.is_empty() {
        String::new()
    } else {
        format!(" {{{} : Type}}", f.ty_params.iter().map(|v| format!("ty_{}", coq_ident(v))).collect::<Vec<_>>().join(" "))
    };
    let ps: String = f.params.iter().map(|(n, t)| format!(" ({} : {})", coq_ident(n), p_ty(t, 0, ord))).collect();
    let what = format!("let {}", f.name);
    Ok(match f.kind {
        Kind::Plain => format!("Definition {}{}{} : {} :=\n  {}.\n", f.name, typs, ps, p_ty(&f.ret, 0, ord), p_tm(&f.body, 1, false)),
        Kind::Structural(i) => format!(
            "Fixpoint {}{}{} {{struct {}}} : {} :=\n  {}.\n",
            f.name,
            typs,
            ps,
            coq_ident(&f.params[i].0),
            p_ty(&f.ret, 0, ord),
            p_tm(&f.body, 1, false)
        ),
        Kind::Fuelled => {
            let g_fuel = format!("{}_fuel", f.name);
            let body = p_fuelled(&f.body, &f.name, &g_fuel, item, &what, 3)?;
            format!(
                "(* `{n}` is not structurally recursive: fuelled form; running out of fuel is the distinct\n   outcome [OutOfFuel] (excluded for fuel > length by Lib/ListProofs.v). *)\nFixpoint {g}{typs} (fuel : nat){ps} {{struct fuel}} : fuelled {ret} :=\n  match fuel with\n  | O => OutOfFuel\n  | S fuel' =>\n      {body}\n  end.\n",
                n = f.name,
                g = g_fuel,
                typs = typs,
                ps = ps,
                ret = p_ty(&f.ret, 2, ord),
                body = body
            )
        }
    })
}

fn p_ind(i: &Ind) -> String {
    let ps: String = i.params.iter().map(|p| format!(" ty_{}", coq_ident(p))).collect();
    let mut s = format!("Inductive {} ({} : Type) : Type :=", i.name, ps.trim());
    for (c, args) in &i.ctors {
        s.push_str(&format!("\n  | {}", c));
        for a in args {
            s.push_str(&format!(" (_ : {})", p_ty(a, 0, &None)));
        }
    }
    s.push_str(".\n");
    for (c, _) in &i.ctors {
        s.push_str(&format!("Arguments {} {{{}}}.\n", c, ps.trim()));
    }
    s
}

fn base_maps() -> (BTreeMap<String, String>, BTreeMap<String, String>) {
    let mut ctor = BTreeMap::new();
    for (g, c) in [("Cons", "cons"), ("Nil", "nil"), ("Some", "Some"), ("None", "None"), ("LT", "Lt"), ("EQ", "Eq"), ("GT", "Gt"), ("True", "true"), ("False", "false")] {
        ctor.insert(g.to_string(), c.to_string());
    }
    let mut ty = BTreeMap::new();
    for (g, c) in [("List", "list"), ("Option", "option"), ("Ordering", "comparison"), ("Bool", "bool")] {
        ty.insert(g.to_string(), c.to_string());
    }
    (ctor, ty)
}

/// `let { compare } = import! std.cmp` present at top level?
fn imports_compare(top: &Top) -> bool {
    top.values.iter().any(|b| match (&b.name.value, &b.expr.value) {
        (Pattern::Record { fields, .. }, Expr::App { func, args, .. }) => {
            let is_import = matches!(&func.value, Expr::Ident(id) if sym(&id.name) == "import!");
            let is_cmp = args.len() == 1
                && match &args[0].value {
                    Expr::Projection(e, f, _) => matches!(&e.value, Expr::Ident(id) if sym(&id.name) == "std") && sym(f) == "cmp",
                    _ => false,
                };
            is_import && is_cmp && fields.iter().any(|f| matches!(f, PatternField::Value { name, value: None } if sym(&name.value) == "compare"))
        }
        _ => false,
    })
}

/// The fixity of `<>` in std/semigroup.glu (`#[infix(left, 4)] let (<>) ... = append`).
fn semigroup_fixity(item: &'static str) -> Result<bool, GenError> {
    let root = parse_glu(item, "std/semigroup.glu")?;
    let top = collect_top(root.expr());
    for b in &top.values {
        if binding_name(b).as_deref() == Some("<>") {
            let attrs = b.metadata.metadata.as_ref().map(|m| m.attributes.clone()).unwrap_or_default();
            for a in attrs {
                if a.name == "infix" {
                    let args = a.arguments.unwrap_or_default();
                    let dir = args.split(',').next().unwrap_or("").trim().to_string();
                    return match dir.as_str() {
                        "left" => Ok(true),
                        "right" => Ok(false),
                        _ => err(item, format!("std/semigroup.glu: unknown fixity `{}` of (<>)", args)),
                    };
                }
            }
            return err(item, "std/semigroup.glu: (<>) has no #[infix] attribute");
        }
    }
    err(item, "std/semigroup.glu: (<>) not found")
}

/// Check that the list type of std/list.glu is `type List a = | Nil | Cons a (List a)`, so that
/// mapping it to Coq's `list` (nil / cons) is faithful.
fn check_list_type(item: &'static str) -> Result<(), GenError> {
    let root = parse_glu(item, "std/list.glu")?;
    let top = collect_top(root.expr());
    let (_, ty) = base_maps();
    let tr = Tr { item, ctor_map: BTreeMap::new(), type_map: ty, ord_var: None, cur_has_ord: false, globals: BTreeMap::new(), aliases: BTreeMap::new(), has_compare: false, append_op: None, top };
    let i = tr.inductive("List", "list")?;
    let a = Ty::Var("a".into());
    let expect = vec![("Nil".to_string(), vec![]), ("Cons".to_string(), vec![a.clone(), Ty::Con("list".into(), vec![a])])];
    if i.params != vec!["a".to_string()] || i.ctors != expect {
        return err(item, "std/list.glu: `type List a` is no longer `| Nil | Cons a (List a)`");
    }
    Ok(())
}

fn header(from: &str) -> String {
    format!(
        "(* GENERATED by gvh gencoq (harness/src/tr/glu_std.rs) from /repo/{}.  Do not edit.\n   Cons/Nil = cons/nil, Some/None, LT/EQ/GT = Lt/Eq/Gt, True/False = true/false; a type variable\n   `a` is `ty_a`; the implicit `[Ord _]` argument is the Section variable `compare`. *)\nFrom Coq Require Import List.\nImport ListNotations.\n\n",
        from
    )
}

pub fn generate_map() -> GenResult {
    const ITEM: &str = "MapGen";
    check_list_type(ITEM)?;
    let root = parse_glu(ITEM, "std/map.glu")?;
    let top = collect_top(root.expr());
    let (mut ctor_map, mut type_map) = base_maps();
    type_map.insert("Map".into(), "Map".into());
    let has_compare = imports_compare(&top);
    let mut tr = Tr { item: ITEM, ctor_map: ctor_map.clone(), type_map, ord_var: None, cur_has_ord: false, globals: BTreeMap::new(), aliases: BTreeMap::new(), has_compare, append_op: None, top };
    let ind = tr.inductive("Map", "Map")?;
    for (c, _) in &ind.ctors {
        if ctor_map.contains_key(c) {
            return err(ITEM, format!("constructor `{}` of Map clashes with a mapped constructor", c));
        }
        ctor_map.insert(c.clone(), c.clone());
    }
    tr.ctor_map = ctor_map;
    // `let empty = Tip`: annotation-less alias of a constructor
    if let Some(b) = tr.find_value("empty") {
        match (&b.expr.value, b.args.is_empty(), b.typ.is_none()) {
            (Expr::Ident(id), true, true) if tr.ctor_map.contains_key(&sym(&id.name)) => {
                let c = tr.ctor_map[&sym(&id.name)].clone();
                tr.aliases.insert("empty".into(), c);
            }
            _ => return err(ITEM, "let empty: no longer an alias of a constructor"),
        }
    } else {
        return err(ITEM, "let empty: binding not found");
    }
    if !has_compare {
        return err(ITEM, "`let { compare } = import! std.cmp` not found");
    }
    let names = ["find", "insert", "map", "map_with_key", "foldr", "foldl", "foldr_with_key", "foldl_with_key", "append", "to_list", "keys", "values"];
    tr.ord_var = tr.find_ord_var(&names);
    let mut funs = vec![];
    for n in names {
        funs.push(tr.function(n, n, None)?);
    }
    for f in &funs {
        if matches!(f.kind, Kind::Fuelled) {
            return err(ITEM, format!("let {}: recursion is no longer structural on the matched tree", f.name));
        }
    }
    let ord = match &tr.ord_var {
        Some(o) => o.clone(),
        None => return err(ITEM, "no `[Ord _]` argument found"),
    };
    let mut s = header("std/map.glu");
    s.push_str(&p_ind(&ind));
    s.push_str(&format!("\nSection Ord.\nContext {{ty_{o} : Type}}.\nVariable compare : ty_{o} -> ty_{o} -> comparison.\n\n", o = coq_ident(&ord)));
    for f in &funs {
        s.push_str(&p_fun(f, ITEM, &tr.ord_var)?);
        s.push('\n');
    }
    s.push_str("End Ord.\n");
    Ok(s)
}

pub fn generate_list() -> GenResult {
    const ITEM: &str = "ListGen";
    check_list_type(ITEM)?;
    let left = semigroup_fixity(ITEM)?;
    let root = parse_glu(ITEM, "std/list.glu")?;
    let top = collect_top(root.expr());
    let (ctor_map, type_map) = base_maps();
    let has_compare = imports_compare(&top);
    if !has_compare {
        return err(ITEM, "`let { compare } = import! std.cmp` not found");
    }
    let mut tr = Tr { item: ITEM, ctor_map, type_map, ord_var: None, cur_has_ord: false, globals: BTreeMap::new(), aliases: BTreeMap::new(), has_compare, append_op: None, top };
    // `semigroup : Semigroup (List a) = rec let append xs ys = .. in { append }`: the instance `<>`
    // resolves to at type `List a` inside std/list.glu (the only Semigroup (List a) in scope).
    let sg = match tr.find_value("semigroup") {
        Some(b) => b,
        None => return err(ITEM, "let semigroup: binding not found"),
    };
    let append_b: B = match &sg.expr.value {
        Expr::LetBindings(ValueBindings::Recursive(bs), body) if bs.len() == 1 && binding_name(&bs[0]).as_deref() == Some("append") => {
            let ok = match &body.value {
                Expr::Record { exprs, base: None, .. } => exprs.len() == 1 && sym(&exprs[0].name.value) == "append" && exprs[0].value.is_none(),
                _ => false,
            };
            if !ok {
                return err(ITEM, "let semigroup: body is no longer `{ append }`");
            }
            &bs[0]
        }
        _ => return err(ITEM, "let semigroup: no longer `rec let append xs ys = .. { append }`"),
    };
    let sg_ok = match &sg.typ {
        Some(t) => match &**t {
            Type::App(f, args) if args.len() == 1 => {
                matches!(&**f, Type::Ident(c) if sym(&c.name) == "Semigroup")
                    && tr.ty("let semigroup", &args[0]).ok() == Some(Ty::Con("list".into(), vec![Ty::Var("a".into())]))
            }
            _ => false,
        },
        None => false,
    };
    if !sg_ok {
        return err(ITEM, "let semigroup: type annotation is no longer `Semigroup (List a)`");
    }
    tr.ord_var = tr.find_ord_var(&["filter", "scan", "sort"]);
    // `append` has no annotation of its own: its type is the field type of Semigroup (List a)
    let mut funs = vec![];
    {
        let what = "let semigroup.append";
        if append_b.typ.is_some() || append_b.args.len() != 2 {
            return err(ITEM, format!("{}: expected two parameters and no annotation", what));
        }
        let params: Vec<String> = append_b.args.iter().map(|a| sym(&a.name.value.name)).collect();
        let mut me = tr.shallow();
        me.globals.insert("append".into(), "append".into());
        let body = me.tm(what, &append_b.expr, &params)?;
        let la = Ty::Con("list".into(), vec![Ty::Var("a".into())]);
        let idx = match &body {
            Tm::Match(s, _) => match &**s {
                Tm::Var(p) => params.iter().position(|x| x == p),
                _ => None,
            },
            _ => None,
        };
        let idx = match idx {
            Some(i) => i,
            None => return err(ITEM, format!("{}: body is not `match <parameter> with`", what)),
        };
        // structural check as for annotated functions
        if let Tm::Match(_, alts) = &body {
            for (pat, rhs) in alts {
                let mut sub = vec![];
                pat_vars_direct(pat, &mut sub);
                let mut calls = vec![];
                rec_calls(rhs, "append", &mut calls);
                for args in calls {
                    match args.get(idx) {
                        Some(Tm::Var(v)) if sub.contains(v) && !rebinds(rhs, v) => {}
                        _ => return err(ITEM, format!("{}: recursion is not structural", what)),
                    }
                }
            }
        }
        funs.push(Fun { name: "append".into(), ty_params: vec![], params: params.into_iter().map(|p| (p, la.clone())).collect(), ret: la, body, kind: Kind::Structural(idx) });
    }
    tr.append_op = Some((left, "append".into()));
    for n in ["filter", "scan", "sort"] {
        funs.push(tr.function(n, n, None)?);
    }
    let ord = match &tr.ord_var {
        Some(o) => o.clone(),
        None => return err(ITEM, "no `[Ord _]` argument found"),
    };
    if ord != "a" {
        return err(ITEM, "the ordered type variable of sort is not the element type `a` of `Semigroup (List a)`");
    }
    let mut s = header("std/list.glu (+ fixity of (<>) from std/semigroup.glu)");
    s.push_str("Inductive fuelled (A : Type) : Type :=\n  | Done (_ : A)\n  | OutOfFuel.\nArguments Done {A}.\nArguments OutOfFuel {A}.\n");
    s.push_str(&format!("\nSection Ord.\nContext {{ty_{o} : Type}}.\nVariable compare : ty_{o} -> ty_{o} -> comparison.\n\n", o = coq_ident(&ord)));
    for f in &funs {
        s.push_str(&p_fun(f, ITEM, &tr.ord_var)?);
        s.push('\n');
    }
    s.push_str("End Ord.\n");
    Ok(s)
}
