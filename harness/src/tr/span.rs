//! base/src/pos.rs: `Span::contains`, `contains_pos`, `containment`, `containment_exclusive`
//! -> coq/gen/SpanGen.v (definitions over Z positions, `Ordering` as Coq `comparison`).
//!
//! Accepted shape (anything else fails loudly):
//!   * the four functions are methods of one `impl<I: Index> Span<I>` block, each taking `self`
//!     and one more argument whose type is `Span<I>` (a span) or `I` (a position);
//!   * a body is `[use std::cmp::Ordering::*;]` followed by one tail expression made of
//!       - comparisons `a <= b | a < b | a >= b | a > b | a == b | a != b` of position atoms,
//!         combined with `&&`, `||`, `!`;
//!       - position atoms `self.start()`, `self.end()`, `self.start`, `self.end`,
//!         `<arg>.start()`, `<arg>.end()` (span argument) or `<arg>` (position argument);
//!       - `a.cmp(&b)` on position atoms;
//!       - `match (e1, e2) { (p, q) | ... => e, ... }` with patterns `Equal|Less|Greater|_`
//!         (optionally `Ordering::`-qualified), arms kept in source order;
//!       - `if c { e } else { e }`;
//!       - `self.<f>(<position argument>)` where `<f>` is one of the functions translated earlier;
//!       - the constants `Ordering::{Less,Equal,Greater}` / `Less|Equal|Greater` / `true|false`.
use super::*;
use syn::visit::Visit;

const ITEM: &str = "SpanGen";
const WANTED: [&str; 4] = ["contains", "contains_pos", "containment", "containment_exclusive"];

struct FindFns {
    found: Vec<(String, syn::ImplItemFn)>,
}
impl<'ast> Visit<'ast> for FindFns {
    fn visit_item_impl(&mut self, i: &'ast syn::ItemImpl) {
        // only inherent impls of `Span<I>`
        if i.trait_.is_none() && toks(&i.self_ty) == "Span < I >" {
            for it in &i.items {
                if let syn::ImplItem::Fn(f) = it {
                    let n = f.sig.ident.to_string();
                    if WANTED.contains(&n.as_str()) {
                        self.found.push((n, f.clone()));
                    }
                }
            }
        }
        syn::visit::visit_item_impl(self, i);
    }
}

#[derive(Clone, Copy, PartialEq)]
enum ArgTy {
    Span,
    Pos,
}

struct Cx {
    arg: String,
    arg_ty: ArgTy,
    known: Vec<(String, ArgTy)>,
}

fn e<T>(msg: String) -> Result<T, GenError> {
    err(ITEM, msg)
}

fn path_last(p: &syn::Path) -> String {
    p.segments.last().map(|s| s.ident.to_string()).unwrap_or_default()
}

impl Cx {
    /// A position-valued atom.
    fn pos_atom(&self, x: &syn::Expr) -> Result<String, GenError> {
        match x {
            syn::Expr::Paren(p) => self.pos_atom(&p.expr),
            syn::Expr::Reference(r) if r.mutability.is_none() => self.pos_atom(&r.expr),
            syn::Expr::Path(p) if p.path.is_ident(&self.arg) && self.arg_ty == ArgTy::Pos => Ok(self.arg.clone()),
            syn::Expr::MethodCall(m) if m.args.is_empty() => {
                let recv = self.span_atom(&m.receiver)?;
                match m.method.to_string().as_str() {
                    "start" => Ok(format!("(start {})", recv)),
                    "end" => Ok(format!("(end_ {})", recv)),
                    other => e(format!("unsupported position accessor `.{}()`", other)),
                }
            }
            syn::Expr::Field(f) => {
                let recv = self.span_atom(&f.base)?;
                match toks(&f.member).as_str() {
                    "start" => Ok(format!("(start {})", recv)),
                    "end" => Ok(format!("(end_ {})", recv)),
                    other => e(format!("unsupported field `.{}`", other)),
                }
            }
            other => e(format!("unsupported position expression `{}`", toks(other))),
        }
    }
    fn span_atom(&self, x: &syn::Expr) -> Result<String, GenError> {
        match x {
            syn::Expr::Paren(p) => self.span_atom(&p.expr),
            syn::Expr::Path(p) if p.path.is_ident("self") => Ok("self".into()),
            syn::Expr::Path(p) if p.path.is_ident(&self.arg) && self.arg_ty == ArgTy::Span => Ok(self.arg.clone()),
            other => e(format!("unsupported span expression `{}`", toks(other))),
        }
    }
    fn ordering_const(p: &syn::Path) -> Option<&'static str> {
        let segs: Vec<String> = p.segments.iter().map(|s| s.ident.to_string()).collect();
        let ok_prefix = match segs.len() {
            1 => true,
            2 => segs[0] == "Ordering",
            4 => segs[0] == "std" && segs[1] == "cmp" && segs[2] == "Ordering",
            _ => false,
        };
        if !ok_prefix {
            return None;
        }
        match segs.last().unwrap().as_str() {
            "Equal" => Some("Eq"),
            "Less" => Some("Lt"),
            "Greater" => Some("Gt"),
            _ => None,
        }
    }
    fn block_tail<'a>(&self, b: &'a syn::Block) -> Result<&'a syn::Expr, GenError> {
        let mut tail = None;
        for (i, st) in b.stmts.iter().enumerate() {
            match st {
                syn::Stmt::Item(syn::Item::Use(u)) if toks(u) == "use std :: cmp :: Ordering :: * ;" => {}
                syn::Stmt::Expr(x, None) if i + 1 == b.stmts.len() => tail = Some(x),
                other => return e(format!("unsupported statement `{}`", toks(other))),
            }
        }
        tail.ok_or(GenError { item: ITEM.into(), msg: "block without tail expression".into() })
    }
    /// A bool- or Ordering-valued expression.
    fn expr(&self, x: &syn::Expr) -> Result<String, GenError> {
        match x {
            syn::Expr::Paren(p) => self.expr(&p.expr),
            syn::Expr::Lit(syn::ExprLit { lit: syn::Lit::Bool(b), .. }) => Ok(if b.value { "true".into() } else { "false".into() }),
            syn::Expr::Path(p) => match Self::ordering_const(&p.path) {
                Some(c) => Ok(c.into()),
                None => e(format!("unsupported path `{}`", toks(p))),
            },
            syn::Expr::Unary(u) if matches!(u.op, syn::UnOp::Not(_)) => Ok(format!("(negb {})", self.expr(&u.expr)?)),
            syn::Expr::Binary(b) => {
                use syn::BinOp::*;
                match &b.op {
                    And(_) => Ok(format!("({} && {})", self.expr(&b.left)?, self.expr(&b.right)?)),
                    Or(_) => Ok(format!("({} || {})", self.expr(&b.left)?, self.expr(&b.right)?)),
                    Le(_) => Ok(format!("({} <=? {})", self.pos_atom(&b.left)?, self.pos_atom(&b.right)?)),
                    Lt(_) => Ok(format!("({} <? {})", self.pos_atom(&b.left)?, self.pos_atom(&b.right)?)),
                    Ge(_) => Ok(format!("({} >=? {})", self.pos_atom(&b.left)?, self.pos_atom(&b.right)?)),
                    Gt(_) => Ok(format!("({} >? {})", self.pos_atom(&b.left)?, self.pos_atom(&b.right)?)),
                    Eq(_) => Ok(format!("({} =? {})", self.pos_atom(&b.left)?, self.pos_atom(&b.right)?)),
                    Ne(_) => Ok(format!("(negb ({} =? {}))", self.pos_atom(&b.left)?, self.pos_atom(&b.right)?)),
                    other => e(format!("unsupported operator `{}`", toks(other))),
                }
            }
            syn::Expr::MethodCall(m) if m.method == "cmp" && m.args.len() == 1 => {
                Ok(format!("({} ?= {})", self.pos_atom(&m.receiver)?, self.pos_atom(&m.args[0])?))
            }
            syn::Expr::MethodCall(m) if m.args.len() == 1 && matches!(&*m.receiver, syn::Expr::Path(p) if p.path.is_ident("self")) => {
                let f = m.method.to_string();
                match self.known.iter().find(|(n, _)| *n == f) {
                    Some((_, ArgTy::Pos)) => Ok(format!("({} self {})", f, self.pos_atom(&m.args[0])?)),
                    Some((_, ArgTy::Span)) => Ok(format!("({} self {})", f, self.span_atom(&m.args[0])?)),
                    None => e(format!("call of `self.{}` which is not one of the functions translated before it", f)),
                }
            }
            syn::Expr::If(i) => {
                let els = match &i.else_branch {
                    Some((_, b)) => match &**b {
                        syn::Expr::Block(b) => self.expr(self.block_tail(&b.block)?)?,
                        other => self.expr(other)?,
                    },
                    None => return e("`if` without `else`".into()),
                };
                Ok(format!("(if {} then {} else {})", self.expr(&i.cond)?, self.expr(self.block_tail(&i.then_branch)?)?, els))
            }
            syn::Expr::Match(m) => {
                let scrut = match &*m.expr {
                    syn::Expr::Tuple(t) if t.elems.len() == 2 => t,
                    other => return e(format!("`match` scrutinee is not a pair: `{}`", toks(other))),
                };
                let mut s = format!("(match {}, {} with", self.expr(&scrut.elems[0])?, self.expr(&scrut.elems[1])?);
                for arm in &m.arms {
                    if arm.guard.is_some() {
                        return e("match arm with a guard".into());
                    }
                    let mut alts = vec![];
                    Self::pair_pats(&arm.pat, &mut alts)?;
                    let pats: Vec<String> = alts.iter().map(|(a, b)| format!("{}, {}", a, b)).collect();
                    s.push_str(&format!("\n    | {} => {}", pats.join(" | "), self.expr(&arm.body)?));
                }
                s.push_str("\n    end)");
                Ok(s)
            }
            syn::Expr::Block(b) => self.expr(self.block_tail(&b.block)?),
            other => e(format!("unsupported expression `{}`", toks(other))),
        }
    }
    fn pair_pats(p: &syn::Pat, out: &mut Vec<(String, String)>) -> Result<(), GenError> {
        match p {
            syn::Pat::Or(o) => {
                for c in &o.cases {
                    Self::pair_pats(c, out)?;
                }
                Ok(())
            }
            syn::Pat::Paren(p) => Self::pair_pats(&p.pat, out),
            syn::Pat::Tuple(t) if t.elems.len() == 2 => {
                out.push((Self::ord_pat(&t.elems[0])?, Self::ord_pat(&t.elems[1])?));
                Ok(())
            }
            other => e(format!("unsupported match pattern `{}`", toks(other))),
        }
    }
    fn ord_pat(p: &syn::Pat) -> Result<String, GenError> {
        match p {
            syn::Pat::Wild(_) => Ok("_".into()),
            syn::Pat::Ident(i) if i.by_ref.is_none() && i.subpat.is_none() => match i.ident.to_string().as_str() {
                "Equal" => Ok("Eq".into()),
                "Less" => Ok("Lt".into()),
                "Greater" => Ok("Gt".into()),
                other => e(format!("binding pattern `{}` is not supported", other)),
            },
            syn::Pat::Path(pp) => match Self::ordering_const(&pp.path) {
                Some(c) => Ok(c.into()),
                None => e(format!("unsupported pattern path `{}`", toks(pp))),
            },
            other => e(format!("unsupported Ordering pattern `{}`", toks(other))),
        }
    }
}

pub fn generate() -> GenResult {
    let file = parse_file(ITEM, "base/src/pos.rs")?;
    let mut v = FindFns { found: vec![] };
    v.visit_file(&file);
    let mut out = String::new();
    out.push_str("(* GENERATED by gvh gencoq from /repo/base/src/pos.rs (impl Span: contains, contains_pos,\n   containment, containment_exclusive).  Do not edit. *)\n");
    out.push_str("From Coq Require Import ZArith Bool.\nLocal Open Scope Z_scope.\nLocal Open Scope bool_scope.\n\n");
    out.push_str("Record span : Set := { start : Z; end_ : Z }.\n\n");
    let mut known: Vec<(String, ArgTy)> = vec![];
    for want in WANTED {
        let fs: Vec<&syn::ImplItemFn> = v.found.iter().filter(|(n, _)| n == want).map(|(_, f)| f).collect();
        if fs.len() != 1 {
            return e(format!("expected exactly one `fn {}` in `impl<I: Index> Span<I>`, found {}", want, fs.len()));
        }
        let f = fs[0];
        let inputs: Vec<&syn::FnArg> = f.sig.inputs.iter().collect();
        if inputs.len() != 2 || !matches!(inputs[0], syn::FnArg::Receiver(r) if r.reference.is_none()) {
            return e(format!("`fn {}` does not take `(self, <arg>)`", want));
        }
        let (arg, arg_ty) = match inputs[1] {
            syn::FnArg::Typed(t) => {
                let name = match &*t.pat {
                    syn::Pat::Ident(i) => i.ident.to_string(),
                    other => return e(format!("`fn {}`: unsupported argument pattern `{}`", want, toks(other))),
                };
                let ty = match toks(&t.ty).as_str() {
                    "Span < I >" => ArgTy::Span,
                    "I" => ArgTy::Pos,
                    other => return e(format!("`fn {}`: unsupported argument type `{}`", want, other)),
                };
                (name, ty)
            }
            _ => return e(format!("`fn {}`: unexpected receiver", want)),
        };
        let ret = match &f.sig.output {
            syn::ReturnType::Type(_, t) => toks(t),
            _ => return e(format!("`fn {}` has no return type", want)),
        };
        let coq_ret = match ret.as_str() {
            "bool" => "bool",
            "Ordering" => "comparison",
            other => return e(format!("`fn {}`: unsupported return type `{}`", want, other)),
        };
        if arg == "self" || arg == "start" || arg == "end_" || WANTED.contains(&arg.as_str()) {
            return e(format!("`fn {}`: argument name `{}` clashes with a generated name", want, arg));
        }
        let cx = Cx { arg: arg.clone(), arg_ty, known: known.clone() };
        let body = cx.expr(cx.block_tail(&f.block)?).map_err(|er| GenError { item: ITEM.into(), msg: format!("fn {}: {}", want, er.msg) })?;
        out.push_str(&format!(
            "(* {} *)\nDefinition {} (self : span) ({} : {}) : {} :=\n  {}.\n\n",
            toks(&f.sig).replace("*)", "* )"),
            want,
            arg,
            if arg_ty == ArgTy::Span { "span" } else { "Z" },
            coq_ret,
            body
        ));
        known.push((want.to_string(), arg_ty));
    }
    let _ = path_last;
    Ok(out)
}
