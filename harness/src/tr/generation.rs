//! vm/src/gc.rs `impl Generation` (+ the places that decide with it) -> coq/gen/GenerationGen.v
//!
//! Accepted shape (anything else fails loudly):
//!   * `struct Generation(i32)` deriving `Default`
//!   * `impl Generation { is_root, disjoint, is_parent_of, can_contain_values_from, next }`, each
//!     body one integer expression over `self.0` / `other.0` / literals (operators are READ from
//!     the source), optionally wrapped in `Generation(..)`, optionally preceded by `assert!(..)`
//!   * `Gc::mark`: the `if` whose condition decides "already marked / not mine"
//!   * `Gc::new_child_gc`: `Gc::new(self.generation.<m>(), ..)`
//!   * value.rs `Cloner::deep_clone_inner`: the first `if` (per-pointer shortcut),
//!     `Cloner::force_full_clone` (`self.receiver_generation = <expr>`), `Cloner::new`
//!     (`receiver_generation: gc.generation()`), `Value::generation` (immediates ->
//!     `Generation::default()`)
//!   * thread.rs `trace_fields_except_stack`: the `if` guarding `global_state.trace`,
//!     `can_share_values_with`: the `if` choosing (parent, child)
use super::*;
use std::collections::BTreeMap;
use syn::visit::Visit;

const ITEM: &str = "GenerationGen";

type Env = BTreeMap<String, String>;

fn e<T>(msg: impl Into<String>) -> Result<T, GenError> {
    err(ITEM, msg)
}

const METHODS: [&str; 5] = ["is_root", "disjoint", "is_parent_of", "can_contain_values_from", "next"];

/// Translate an integer/boolean expression.  `env` maps the normalised token text of atoms to Coq
/// variable names.
fn tr_expr(x: &syn::Expr, env: &Env) -> Result<String, GenError> {
    let key = toks(x);
    if let Some(v) = env.get(&key) {
        return Ok(v.clone());
    }
    match x {
        syn::Expr::Paren(p) => tr_expr(&p.expr, env),
        syn::Expr::Group(p) => tr_expr(&p.expr, env),
        syn::Expr::Lit(syn::ExprLit { lit: syn::Lit::Int(i), .. }) => {
            let v: i64 = i.base10_parse().map_err(|er| GenError { item: ITEM.into(), msg: format!("{}", er) })?;
            Ok(format!("{}", v))
        }
        syn::Expr::Unary(u) => match u.op {
            syn::UnOp::Neg(_) => Ok(format!("(- {})", tr_expr(&u.expr, env)?)),
            syn::UnOp::Not(_) => Ok(format!("(negb {})", tr_expr(&u.expr, env)?)),
            _ => e(format!("unsupported unary operator in `{}`", key)),
        },
        syn::Expr::Binary(b) => {
            let l = tr_expr(&b.left, env)?;
            let r = tr_expr(&b.right, env)?;
            let op = match b.op {
                syn::BinOp::Lt(_) => "<?",
                syn::BinOp::Le(_) => "<=?",
                syn::BinOp::Gt(_) => ">?",
                syn::BinOp::Ge(_) => ">=?",
                syn::BinOp::Eq(_) => "=?",
                syn::BinOp::Ne(_) => return Ok(format!("(negb ({} =? {}))", l, r)),
                syn::BinOp::Add(_) => "+",
                syn::BinOp::Sub(_) => "-",
                syn::BinOp::And(_) => "&&",
                syn::BinOp::Or(_) => "||",
                _ => return e(format!("unsupported binary operator in `{}`", key)),
            };
            Ok(format!("({} {} {})", l, op, r))
        }
        // Generation(expr)
        syn::Expr::Call(c) if toks(&c.func) == "Generation" && c.args.len() == 1 => tr_expr(&c.args[0], env),
        // Generation::disjoint() / Generation::default()
        syn::Expr::Call(c) if c.args.is_empty() => match toks(&c.func).as_str() {
            "Generation :: disjoint" => Ok("gen_disjoint".into()),
            "Generation :: default" => Ok("gen_default".into()),
            other => e(format!("unsupported call `{}`", other)),
        },
        syn::Expr::MethodCall(m) if METHODS.contains(&m.method.to_string().as_str()) => {
            let mut s = format!("(gen_{} {}", m.method, tr_expr(&m.receiver, env)?);
            for a in m.args.iter() {
                s.push(' ');
                s.push_str(&tr_expr(a, env)?);
            }
            s.push(')');
            Ok(s)
        }
        _ => e(format!("unsupported expression `{}`", key)),
    }
}

/// Body of a `Generation` method: optional `assert!` statements, then one expression.
fn method_body<'a>(f: &'a syn::ImplItemFn) -> Result<(&'a syn::Expr, Vec<String>), GenError> {
    let mut asserts = vec![];
    let mut last = None;
    let n = f.block.stmts.len();
    for (i, st) in f.block.stmts.iter().enumerate() {
        match st {
            syn::Stmt::Macro(m) if toks(&m.mac.path) == "assert" => asserts.push(toks(&m.mac.tokens)),
            syn::Stmt::Expr(x, None) if i + 1 == n => last = Some(x),
            _ => return e(format!("Generation::{}: unexpected statement `{}`", f.sig.ident, toks(st))),
        }
    }
    match last {
        Some(x) => Ok((x, asserts)),
        None => e(format!("Generation::{}: no tail expression", f.sig.ident)),
    }
}

struct Fns {
    want: Vec<(&'static str, &'static str)>, // (impl self type, fn name)
    found: BTreeMap<String, syn::ImplItemFn>,
}
impl<'ast> Visit<'ast> for Fns {
    fn visit_item_impl(&mut self, i: &'ast syn::ItemImpl) {
        let ty = toks(&i.self_ty);
        let ty = ty.split('<').next().unwrap().trim().to_string();
        for it in &i.items {
            if let syn::ImplItem::Fn(f) = it {
                for (t, n) in &self.want {
                    if *t == ty && f.sig.ident == n {
                        self.found.insert(format!("{}::{}", t, n), f.clone());
                    }
                }
            }
        }
        syn::visit::visit_item_impl(self, i);
    }
}

fn find_fns(rel: &str, want: &[(&'static str, &'static str)]) -> Result<BTreeMap<String, syn::ImplItemFn>, GenError> {
    let file = parse_file(ITEM, rel)?;
    let mut v = Fns { want: want.to_vec(), found: BTreeMap::new() };
    v.visit_file(&file);
    for (t, n) in want {
        if !v.found.contains_key(&format!("{}::{}", t, n)) {
            return e(format!("{}: fn {}::{} not found", rel, t, n));
        }
    }
    Ok(v.found)
}

/// All `if` conditions of a function, in source order.
struct Ifs(Vec<syn::Expr>);
impl<'ast> Visit<'ast> for Ifs {
    fn visit_expr_if(&mut self, i: &'ast syn::ExprIf) {
        self.0.push((*i.cond).clone());
        syn::visit::visit_expr_if(self, i);
    }
}
fn if_conds(f: &syn::ImplItemFn) -> Vec<syn::Expr> {
    let mut v = Ifs(vec![]);
    v.visit_impl_item_fn(f);
    v.0
}

fn env(pairs: &[(&str, &str)]) -> Env {
    pairs.iter().map(|(a, b)| (a.to_string(), b.to_string())).collect()
}

pub fn generate() -> GenResult {
    let mut s = String::new();
    s.push_str("(* GENERATED by gvh gencoq from /repo/vm/src/gc.rs (impl Generation, Gc::mark, Gc::new_child_gc),\n   vm/src/value.rs (Cloner, Value::generation) and vm/src/thread.rs.  Do not edit. *)\n");
    s.push_str("From Coq Require Import ZArith Bool.\nLocal Open Scope Z_scope.\n\n");

    // ---- struct Generation(i32), derive(Default)
    let gc_src = read_repo("vm/src/gc.rs");
    let gc_file = parse_file(ITEM, "vm/src/gc.rs")?;
    let mut have_struct = false;
    for it in &gc_file.items {
        if let syn::Item::Struct(st) = it {
            if st.ident == "Generation" {
                let attrs: String = st.attrs.iter().map(|a| toks(a)).collect::<Vec<_>>().join(" ");
                if !attrs.contains("Default") {
                    return e("struct Generation no longer derives Default");
                }
                if toks(&st.fields) != "(i32)" {
                    return e(format!("struct Generation is not a newtype over i32: {}", toks(&st.fields)));
                }
                have_struct = true;
            }
        }
    }
    if !have_struct {
        return e("struct Generation not found");
    }
    let _ = gc_src;
    s.push_str("(* #[derive(Default)] struct Generation(i32) *)\nDefinition gen_default : Z := 0.\n\n");

    // ---- impl Generation
    let g = find_fns(
        "vm/src/gc.rs",
        &[
            ("Generation", "is_root"),
            ("Generation", "disjoint"),
            ("Generation", "is_parent_of"),
            ("Generation", "can_contain_values_from"),
            ("Generation", "next"),
            ("Gc", "mark"),
            ("Gc", "new_child_gc"),
        ],
    )?;
    let genv = env(&[("self . 0", "self"), ("other . 0", "other")]);
    for (name, params, ret) in [
        ("is_root", "(self : Z)", "bool"),
        ("disjoint", "", "Z"),
        ("is_parent_of", "(self other : Z)", "bool"),
        ("can_contain_values_from", "(self other : Z)", "bool"),
        ("next", "(self : Z)", "Z"),
    ] {
        let f = &g[&format!("Generation::{}", name)];
        let nparams = f.sig.inputs.len();
        let expect = match name {
            "disjoint" => 0,
            "is_root" | "next" => 1,
            _ => 2,
        };
        if nparams != expect {
            return e(format!("Generation::{} takes {} parameters, expected {}", name, nparams, expect));
        }
        if expect == 2 {
            if let Some(syn::FnArg::Typed(p)) = f.sig.inputs.iter().nth(1) {
                if toks(&p.pat) != "other" {
                    return e(format!("Generation::{}: second parameter is not called `other`", name));
                }
            }
        }
        let (body, asserts) = method_body(f)?;
        let coq = tr_expr(body, &genv)?;
        for a in &asserts {
            s.push_str(&format!("(* assert!({}) — i32 range, not modelled over Z *)\n", a.replace("*)", "* )")));
        }
        s.push_str(&format!("(* {} *)\nDefinition gen_{} {} : {} := {}.\n\n", toks(body).replace("*)", "* )"), name, params, ret, coq));
    }

    // ---- Gc::mark: `if header.generation().is_parent_of(self.generation()) || header.marked.get()`
    let conds = if_conds(&g["Gc::mark"]);
    // (`if let Some(r) = crate::verif::on_mark(..)` is the verification hook, not a decision of mark)
    let c: Vec<&syn::Expr> = conds.iter().filter(|c| !matches!(c, syn::Expr::Let(_)) && toks(*c).contains("generation")).collect();
    if c.len() != 1 {
        return e(format!("Gc::mark: expected exactly one `if` deciding on generations, found {}", c.len()));
    }
    let menv = env(&[
        ("header . generation ()", "header_gen"),
        ("self . generation ()", "self_gen"),
        ("self . generation", "self_gen"),
        ("header . marked . get ()", "marked"),
    ]);
    s.push_str(&format!(
        "(* Gc::mark: `if {} {{ true /* skip */ }} else {{ mark; false }}` *)\nDefinition mark_skips (header_gen self_gen : Z) (marked : bool) : bool := {}.\n\n",
        toks(c[0]),
        tr_expr(c[0], &menv)?
    ));

    // ---- Gc::new_child_gc: Gc::new(self.generation.next(), self.memory_limit)
    {
        let f = &g["Gc::new_child_gc"];
        let (body, _) = method_body(f)?;
        let call = match body {
            syn::Expr::Call(c) if toks(&c.func) == "Gc :: new" && c.args.len() == 2 => c,
            _ => return e(format!("Gc::new_child_gc is not `Gc::new(gen, limit)`: {}", toks(body))),
        };
        let cenv = env(&[("self . generation", "parent_gen")]);
        s.push_str(&format!(
            "(* Gc::new_child_gc: Gc::new({}, ..) *)\nDefinition child_generation (parent_gen : Z) : Z := {}.\n\n",
            toks(&call.args[0]),
            tr_expr(&call.args[0], &cenv)?
        ));
    }

    // ---- value.rs: Cloner
    let v = find_fns(
        "vm/src/value.rs",
        &[("Cloner", "deep_clone_inner"), ("Cloner", "force_full_clone"), ("Cloner", "new"), ("Value", "generation")],
    )?;
    {
        let conds = if_conds(&v["Cloner::deep_clone_inner"]);
        let first = match conds.first() {
            Some(c) => c,
            None => return e("Cloner::deep_clone_inner: the shortcut `if` is gone"),
        };
        let cenv = env(&[("self . receiver_generation", "receiver_gen"), ("value . generation ()", "value_gen")]);
        s.push_str(&format!(
            "(* Cloner::deep_clone_inner: `if {} {{ return Ok(value.clone_unrooted()) }}` *)\nDefinition clone_shares (receiver_gen value_gen : Z) : bool := {}.\n\n",
            toks(first),
            tr_expr(first, &cenv)?
        ));
        // the shortcut must come before any cloning
        let body = toks(&v["Cloner::deep_clone_inner"].block);
        let p_if = body.find("can_contain_values_from");
        let p_match = body.find("match & value . 0");
        match (p_if, p_match) {
            (Some(a), Some(b)) if a < b => {}
            _ => return e("Cloner::deep_clone_inner: shortcut is not tested before `match &value.0`"),
        }
    }
    {
        // self.receiver_generation = Generation::disjoint();
        let f = &v["Cloner::force_full_clone"];
        let mut rhs = None;
        for st in &f.block.stmts {
            if let syn::Stmt::Expr(syn::Expr::Assign(a), _) = st {
                if toks(&a.left) == "self . receiver_generation" {
                    rhs = Some((*a.right).clone());
                }
            }
        }
        let rhs = match rhs {
            Some(r) => r,
            None => return e("Cloner::force_full_clone no longer assigns self.receiver_generation"),
        };
        s.push_str(&format!(
            "(* Cloner::force_full_clone: self.receiver_generation = {} *)\nDefinition full_clone_generation : Z := {}.\n\n",
            toks(&rhs),
            tr_expr(&rhs, &Env::new())?
        ));
        if !toks(&v["Cloner::new"].block).contains("receiver_generation : gc . generation ()") {
            return e("Cloner::new no longer initialises receiver_generation with gc.generation()");
        }
    }
    {
        // immediates: `... | Int(_) | Float(_) => Generation::default()`; every pointer variant => p.generation()
        let body = toks(&v["Value::generation"].block);
        if !body.contains("ValueRepr :: Tag (_) | ValueRepr :: Byte (_) | Int (_) | Float (_) => Generation :: default ()") {
            return e("Value::generation: immediates no longer map to Generation::default()");
        }
        for k in ["String", "ValueRepr :: Data", "Function", "Closure", "ValueRepr :: Array", "PartialApplication", "ValueRepr :: Userdata", "ValueRepr :: Thread"] {
            if !body.contains(&format!("{} (p) => p . generation ()", k)) {
                return e(format!("Value::generation: `{}(p) => p.generation()` not found", k));
            }
        }
        s.push_str("(* Value::generation: Tag | Byte | Int | Float => Generation::default(); pointers => header generation *)\nDefinition imm_generation : Z := gen_default.\n\n");
    }

    // ---- thread.rs
    let t = find_fns("vm/src/thread.rs", &[("Thread", "trace_fields_except_stack"), ("Thread", "can_share_values_with")])?;
    {
        let conds = if_conds(&t["Thread::trace_fields_except_stack"]);
        if conds.len() != 1 {
            return e("Thread::trace_fields_except_stack: expected exactly one `if`");
        }
        let tenv = env(&[("gc . generation ()", "collecting_gen")]);
        s.push_str(&format!(
            "(* Thread::trace_fields_except_stack: `if {} {{ self.global_state.trace(gc) }}` *)\nDefinition traces_globals (collecting_gen : Z) : bool := {}.\n\n",
            toks(&conds[0]),
            tr_expr(&conds[0], &tenv)?
        ));
    }
    {
        let f = &t["Thread::can_share_values_with"];
        let body = toks(&f.block);
        for frag in [
            "if self as * const Thread == other as * const Thread { return true ; }",
            "if & * self . global_state as * const GlobalVmState != & * other . global_state as * const GlobalVmState { return false ; }",
            "let self_gen = gc . generation () ;",
            "let other_gen = other . context . lock () . unwrap () . gc . generation () ;",
            "{ (self , other) } else { (other , self) }",
            "while let Some (ref next) = child . parent { if & * * next as * const Thread == parent as * const Thread { return true ; } child = next ; } false",
        ] {
            if !body.contains(frag) {
                return e(format!("Thread::can_share_values_with no longer contains `{}`", frag));
            }
        }
        let conds = if_conds(f);
        let c: Vec<&syn::Expr> = conds.iter().filter(|c| toks(*c).contains("self_gen")).collect();
        if c.len() != 1 {
            return e("Thread::can_share_values_with: expected one `if` over self_gen/other_gen");
        }
        s.push_str(&format!(
            "(* Thread::can_share_values_with: `let (parent, child) = if {} {{ (self, other) }} else {{ (other, self) }}`,\n   then `child` walks up its parent links looking for `parent` *)\nDefinition share_self_is_parent (self_gen other_gen : Z) : bool := {}.\n",
            toks(c[0]),
            tr_expr(c[0], &Env::new().into_iter().chain(env(&[("self_gen", "self_gen"), ("other_gen", "other_gen")])).collect())?
        ));
    }
    Ok(s)
}
