//! vm/src/primitives.rs: the `record!{ name => primitive!(arity, ["path",] callee) }` tables of the
//! `load*` functions, the gluon module each table is registered under (src/lib.rs), and - for every
//! callee that is a function defined in primitives.rs itself or a closure written in the table - the
//! explicit guards (`if` conditions that decide between `RuntimeResult::Return` and
//! `RuntimeResult::Panic`).  Output: coq/gen/PrimTableGen.v (`prim_table : list entry`).
//!
//! Shapes accepted (anything else fails loudly):
//!   * `pub fn load*(..) -> Result<ExternModule> { .. ExternModule::new(vm, record!{ .. }) }`
//!   * record entries `type .. => ..` (skipped), `name => primitive!(N, path)`,
//!     `name => primitive!(N, "str", callee)`, `name => primitive::<fn(A..) -> R>("str", callee)`,
//!     `name => record!{ .. }` (nested, names joined with '.'), `name => <other expr>` (a constant)
//!   * `mod std` aliases exactly as listed in `ALIASES` (what `std::int::prim::pow` etc. resolve to)
//!   * local callees keep the operation the model assumes (`CORE`): a fragment of the body
use super::*;
use proc_macro2::{TokenStream, TokenTree};
use syn::visit::Visit;

const ITEM: &str = "PrimTableGen";

#[derive(Clone, Debug)]
pub struct Entry {
    pub module: String,
    pub name: String,
    pub arity: u32,
    pub callee: String,
    pub guards: Vec<String>,
}

pub struct Table {
    pub entries: Vec<Entry>,
    pub consts: Vec<(String, String)>,
}

/// `mod std` in primitives.rs: what the `std::<m>::prim` paths used in the tables stand for.  The
/// model (coq/theories/Lib/Prims.v) reads `std::int::prim::f` as `i64::f`, etc.
const ALIASES: &[&str] = &[
    "pub use crate :: primitives as prim ;",
    "pub mod string { pub type prim = str ; }",
    "pub mod char { pub type prim = char ; }",
    "pub mod array { pub use crate :: primitives :: array as prim ; }",
    "pub mod byte { pub type prim = u8 ; bit_const ! { u8 } }",
    "pub type prim = VmInt ; bit_const ! { VmInt }",
    "pub const arithmetic_shr : fn (l : VmInt , r : VmInt) -> VmInt = shr ;",
    "pub const logical_shr : fn (l : u64 , r : u64) -> u64 = :: std :: ops :: Shr :: shr ;",
    "pub mod float { pub type prim = f64 ; }",
    "pub mod path { pub type prim = :: std :: path :: Path ; }",
    "pub mod string { pub use crate :: primitives :: st_string as prim ; }",
    "pub const $ name : fn (l : $ typ , r : $ typ) -> $ typ = :: std :: ops :: $ trait_ :: $ name ;",
    "BitAnd :: bitand , BitOr :: bitor , BitXor :: bitxor , Shl :: shl , Shr :: shr ,",
];

/// Local callee -> (variant tag, fragment its body must contain): the operation modelled in
/// Lib/Prims.v.  The first matching variant wins; a non-empty tag is appended to the emitted callee
/// text as `@tag`.  A local callee that is not listed is still emitted (the Coq `coverage` theorem
/// then fails for it); a listed one whose body matches no variant is a translator failure.
const CORE: &[(&str, &str, &str)] = &[
    ("array::len", "", "array . len () as VmInt"),
    ("array::index", "", "match array . get (index) { Some (value) => RuntimeResult :: Return (value) , None => RuntimeResult :: Panic"),
    ("array::slice", "", ". skip (self . start) . take (self . end - self . start)"),
    ("array::append", "", "self . lhs . iter () . chain (self . rhs . iter ())"),
    ("int::rem", "", "RuntimeResult :: Return (dividend % divisor)"),
    ("int::rem", "checked", "match dividend . checked_rem (divisor) { Some (value) => RuntimeResult :: Return (value) , None => RuntimeResult :: Panic"),
    ("int::rem_euclid", "", "RuntimeResult :: Return (dividend . rem_euclid (divisor))"),
    ("int::rem_euclid", "checked", "match dividend . checked_rem_euclid (divisor) { Some (value) => RuntimeResult :: Return (value) , None => RuntimeResult :: Panic"),
    ("int::wrapping_rem", "", "RuntimeResult :: Return (dividend . wrapping_rem (divisor))"),
    ("int::wrapping_rem_euclid", "", "RuntimeResult :: Return (dividend . wrapping_rem_euclid (divisor))"),
    ("int::overflowing_rem", "", "RuntimeResult :: Return (dividend . overflowing_rem (divisor))"),
    ("int::overflowing_rem_euclid", "", "RuntimeResult :: Return (dividend . overflowing_rem_euclid (divisor))"),
    ("string::append", "", ". chain (self . rhs . as_bytes ())"),
    ("string::append_char", "", "append (lhs , rhs . encode_utf8 (& mut [0 ; 4]))"),
    ("string::from_char", "", "append_char (WithVM { vm : c . vm , value : \"\" , } , c . value ,)"),
    ("string::split_at", "", "RuntimeResult :: Return (s . split_at (index))"),
    ("string::slice", "", "RuntimeResult :: Return (& s [start .. end])"),
    ("string::from_utf8", "", "GcStr :: from_utf8 (array . get_array () ,) ?"),
    ("string::char_at", "", "s [index ..] . chars () . next ()"),
    ("st_string::len", "", "buf . 0 . lock () . unwrap () . len ()"),
    ("st_string::slice", "", "string :: slice (& buf . 0 . lock () . unwrap () , start , end) . map (| s | s . to_string ())"),
    ("st_string::pop", "", "buf . 0 . lock () . unwrap () . pop ()"),
    ("st_string::push_str", "", "buf . 0 . lock () . unwrap () . push_str (s)"),
    ("parse", "", "s . parse () . map_err (| _ | ())"),
    ("show_int", "", "format ! (\"{}\" , i)"),
    ("show_float", "", "format ! (\"{}\" , f)"),
    ("show_char", "", "format ! (\"{:?}\" , c)"),
    ("show_byte", "", "format ! (\"{}\" , c)"),
    ("error", "", "Status :: Error"),
    ("discriminant_value", "", "ValueRef :: Data (data) => data . tag () , _ => 0 ,"),
    // callees introduced by the C06 fix patches (fixes/C06-*.patch)
    ("int::from_str_radix", "", "RuntimeResult :: Return (VmInt :: from_str_radix (src , radix) . map_err (| _ | ()))"),
    ("int::shl", "", "RuntimeResult :: Return (std :: int :: shl (lhs , rhs))"),
    ("int::arithmetic_shr", "", "RuntimeResult :: Return (std :: int :: arithmetic_shr (lhs , rhs))"),
    ("int::logical_shr", "", "RuntimeResult :: Return (std :: int :: logical_shr (lhs as u64 , rhs as u64) as VmInt)"),
    ("int::pow", "", "match base . checked_pow (exp) { Some (value) => RuntimeResult :: Return (value) , None => RuntimeResult :: Panic"),
    ("int::abs", "", "match value . checked_abs () { Some (value) => RuntimeResult :: Return (value) , None => RuntimeResult :: Panic"),
    ("int::wrapping_div", "", "RuntimeResult :: Return (dividend . wrapping_div (divisor))"),
    ("int::overflowing_div", "", "RuntimeResult :: Return (dividend . overflowing_div (divisor))"),
    ("byte::shl", "", "RuntimeResult :: Return (std :: byte :: shl (lhs , rhs))"),
    ("byte::shr", "", "RuntimeResult :: Return (std :: byte :: shr (lhs , rhs))"),
    ("byte::pow", "", "match base . checked_pow (exp) { Some (value) => RuntimeResult :: Return (value) , None => RuntimeResult :: Panic"),
    ("byte::wrapping_div", "", "RuntimeResult :: Return (dividend . wrapping_div (divisor))"),
    ("byte::overflowing_div", "", "RuntimeResult :: Return (dividend . overflowing_div (divisor))"),
    ("character::is_digit", "", "RuntimeResult :: Return (c . is_digit (radix))"),
    ("character::to_digit", "", "RuntimeResult :: Return (c . to_digit (radix))"),
];

fn nows(s: &str) -> String {
    s.chars().filter(|c| !c.is_whitespace()).collect()
}

struct LocalFn {
    text: String,
    guards: Vec<String>,
}

struct IfCollector {
    guards: Vec<String>,
}
impl<'ast> Visit<'ast> for IfCollector {
    fn visit_expr_if(&mut self, i: &'ast syn::ExprIf) {
        let has_let = {
            struct L(bool);
            impl<'a> Visit<'a> for L {
                fn visit_expr_let(&mut self, _: &'a syn::ExprLet) {
                    self.0 = true;
                }
            }
            let mut l = L(false);
            l.visit_expr(&i.cond);
            l.0
        };
        if !has_let {
            let then = toks(&i.then_branch);
            let p = then.contains("RuntimeResult :: Panic");
            let r = then.contains("RuntimeResult :: Return");
            let tag = match (p, r) {
                (true, false) => Some("bad"),
                (false, true) => Some("ok"),
                _ => None,
            };
            if let Some(tag) = tag {
                self.guards.push(format!("{}:{}", tag, nows(&toks(&i.cond))));
            }
        }
        syn::visit::visit_expr_if(self, i);
    }
}

fn guards_of<T: quote::ToTokens>(node: &T, visit: impl FnOnce(&mut IfCollector)) -> Vec<String> {
    let _ = node;
    let mut c = IfCollector { guards: vec![] };
    visit(&mut c);
    c.guards
}

fn collect_fns(prefix: &str, items: &[syn::Item], out: &mut std::collections::BTreeMap<String, LocalFn>) {
    for it in items {
        match it {
            syn::Item::Fn(f) => {
                let key = format!("{}{}", prefix, f.sig.ident);
                let g = guards_of(f, |c| c.visit_item_fn(f));
                out.insert(key, LocalFn { text: toks(f), guards: g });
            }
            syn::Item::Mod(m) if m.ident != "std" => {
                if let Some((_, items)) = &m.content {
                    collect_fns(&format!("{}{}::", prefix, m.ident), items, out);
                }
            }
            _ => {}
        }
    }
}

/// Split a token stream at top-level commas.
fn split_commas(ts: TokenStream) -> Vec<Vec<TokenTree>> {
    let mut out = vec![vec![]];
    for t in ts {
        match &t {
            TokenTree::Punct(p) if p.as_char() == ',' => out.push(vec![]),
            _ => out.last_mut().unwrap().push(t),
        }
    }
    if out.last().map(|v| v.is_empty()).unwrap_or(false) {
        out.pop();
    }
    out
}

fn mac_name(m: &syn::Macro) -> String {
    m.path.segments.last().map(|s| s.ident.to_string()).unwrap_or_default()
}

fn lit_str(e: &syn::Expr) -> Option<String> {
    match e {
        syn::Expr::Lit(syn::ExprLit { lit: syn::Lit::Str(s), .. }) => Some(s.value()),
        _ => None,
    }
}

struct Ctx<'a> {
    module: &'a str,
    locals: &'a std::collections::BTreeMap<String, LocalFn>,
    table: &'a mut Table,
}

fn resolve_local(callee: &str) -> Option<String> {
    // strip a turbofish suffix `::<..>`
    let base = match callee.find("::<") {
        Some(i) => &callee[..i],
        None => callee,
    };
    for (pre, rep) in [
        ("std::array::prim::", "array::"),
        ("std::effect::st::string::prim::", "st_string::"),
        ("std::prim::", ""),
    ] {
        if let Some(rest) = base.strip_prefix(pre) {
            return Some(format!("{}{}", rep, rest));
        }
    }
    if base.starts_with("std::") || base.starts_with("::std::") || base.starts_with("<") || base.contains('|') {
        return None;
    }
    // `str::cmp` and friends are not local
    let first = base.split("::").next().unwrap_or("");
    if ["str", "char", "u8", "i64", "f64", "VmInt"].contains(&first) {
        return None;
    }
    Some(base.to_string())
}

fn add_primitive(cx: &mut Ctx, name: &str, arity: u32, callee_expr: &syn::Expr) -> Result<(), GenError> {
    let callee = nows(&toks(callee_expr));
    let mut guards = vec![];
    let mut tagged: Option<String> = None;
    if let syn::Expr::Closure(c) = callee_expr {
        guards = guards_of(c, |v| v.visit_expr_closure(c));
    } else if let Some(local) = resolve_local(&callee) {
        match cx.locals.get(&local) {
            Some(f) => {
                guards = f.guards.clone();
                // one level of delegation: `st_string::slice` calls `string::slice(..)`
                let body = nows(&f.text);
                for (k, g) in cx.locals.iter() {
                    if *k != local && k.contains("::") && body.contains(&format!("{}(", k)) {
                        guards.extend(g.guards.iter().cloned());
                    }
                }
                let variants: Vec<&(&str, &str, &str)> = CORE.iter().filter(|(k, _, _)| *k == local).collect();
                if !variants.is_empty() {
                    match variants.iter().find(|(_, _, frag)| body.contains(&nows(frag))) {
                        Some((_, tag, _)) => {
                            if !tag.is_empty() {
                                tagged = Some(format!("{}@{}", callee, tag));
                            }
                        }
                        None => {
                            return err(ITEM, format!("local callee `{}` no longer contains the modelled operation `{}` (re-model it in Lib/Prims.v)", local, variants[0].2));
                        }
                    }
                }
            }
            None => return err(ITEM, format!("callee `{}` of `{}.{}` looks local but no such fn is defined in primitives.rs", callee, cx.module, name)),
        }
    }
    let callee = tagged.unwrap_or(callee);
    cx.table.entries.push(Entry { module: cx.module.to_string(), name: name.to_string(), arity, callee, guards });
    Ok(())
}

fn parse_record(cx: &mut Ctx, prefix: &str, ts: TokenStream) -> Result<(), GenError> {
    for entry in split_commas(ts) {
        if entry.is_empty() {
            continue;
        }
        if let TokenTree::Ident(i) = &entry[0] {
            if i == "type" {
                continue;
            }
        }
        // ident => expr
        let name = match &entry[0] {
            TokenTree::Ident(i) => i.to_string(),
            other => return err(ITEM, format!("record entry in {} does not start with an identifier: `{}`", cx.module, other)),
        };
        let arrow_ok = entry.len() > 3
            && matches!(&entry[1], TokenTree::Punct(p) if p.as_char() == '=')
            && matches!(&entry[2], TokenTree::Punct(p) if p.as_char() == '>');
        if !arrow_ok {
            return err(ITEM, format!("record entry `{}` in {} is not `name => value`", name, cx.module));
        }
        let rest: TokenStream = entry[3..].iter().cloned().collect();
        let full = format!("{}{}", prefix, name);
        let expr: syn::Expr = match syn::parse2(rest.clone()) {
            Ok(e) => e,
            Err(e) => return err(ITEM, format!("value of `{}` in {} is not an expression: {}", full, cx.module, e)),
        };
        match &expr {
            syn::Expr::Macro(m) if mac_name(&m.mac) == "record" => {
                parse_record(cx, &format!("{}.", full), m.mac.tokens.clone())?;
            }
            syn::Expr::Macro(m) if mac_name(&m.mac) == "primitive" => {
                let args = match m.mac.parse_body_with(syn::punctuated::Punctuated::<syn::Expr, syn::Token![,]>::parse_terminated) {
                    Ok(a) => a,
                    Err(e) => return err(ITEM, format!("primitive!(..) of `{}` in {}: {}", full, cx.module, e)),
                };
                let args: Vec<&syn::Expr> = args.iter().collect();
                let arity = match args.first() {
                    Some(syn::Expr::Lit(syn::ExprLit { lit: syn::Lit::Int(i), .. })) => {
                        i.base10_parse::<u32>().map_err(|e| GenError { item: ITEM.into(), msg: e.to_string() })?
                    }
                    _ => return err(ITEM, format!("primitive!(..) of `{}` in {}: first argument is not an integer literal", full, cx.module)),
                };
                match args.len() {
                    2 => add_primitive(cx, &full, arity, args[1])?,
                    3 if lit_str(args[1]).is_some() => add_primitive(cx, &full, arity, args[2])?,
                    _ => return err(ITEM, format!("primitive!(..) of `{}` in {}: expected (N, path) or (N, \"name\", callee)", full, cx.module)),
                }
            }
            syn::Expr::Call(c) if nows(&toks(&c.func)).starts_with("primitive::<fn(") => {
                // primitive::<fn(A, ..) -> R>("name", callee)
                let arity = match &*c.func {
                    syn::Expr::Path(p) => match &p.path.segments.last().unwrap().arguments {
                        syn::PathArguments::AngleBracketed(a) => match a.args.first() {
                            Some(syn::GenericArgument::Type(syn::Type::BareFn(f))) => f.inputs.len() as u32,
                            _ => return err(ITEM, format!("`{}`: primitive::<..> without a fn type", full)),
                        },
                        _ => return err(ITEM, format!("`{}`: primitive::<..> without a fn type", full)),
                    },
                    _ => return err(ITEM, format!("`{}`: unexpected primitive call shape", full)),
                };
                let args: Vec<&syn::Expr> = c.args.iter().collect();
                if args.len() != 2 || lit_str(args[0]).is_none() {
                    return err(ITEM, format!("`{}`: expected primitive::<fn..>(\"name\", callee)", full));
                }
                add_primitive(cx, &full, arity, args[1])?;
            }
            other => {
                let text = nows(&toks(other));
                if text.contains("primitive") {
                    return err(ITEM, format!("value of `{}` in {} mentions `primitive` in an unrecognised shape: {}", full, cx.module, text));
                }
                cx.table.consts.push((format!("{}.{}", cx.module, full), text));
            }
        }
    }
    Ok(())
}

/// src/lib.rs: `("std.int.prim", crate::vm::primitives::load_int)` pairs and
/// `add_extern_module[_with_deps](&vm, "std.prim", crate::vm::primitives::load, ..)` calls.
struct Registrations(Vec<(String, String)>);
impl Registrations {
    fn note(&mut self, name: &syn::Expr, f: &syn::Expr) {
        if let (Some(n), syn::Expr::Path(p)) = (lit_str(name), f) {
            let segs: Vec<String> = p.path.segments.iter().map(|s| s.ident.to_string()).collect();
            if segs.iter().any(|s| s == "primitives") {
                self.0.push((segs.last().unwrap().clone(), n));
            }
        }
    }
}
impl<'ast> Visit<'ast> for Registrations {
    fn visit_expr_tuple(&mut self, t: &'ast syn::ExprTuple) {
        if t.elems.len() == 2 {
            self.note(&t.elems[0], &t.elems[1]);
        }
        syn::visit::visit_expr_tuple(self, t);
    }
    fn visit_expr_call(&mut self, c: &'ast syn::ExprCall) {
        let f = nows(&toks(&c.func));
        if (f.ends_with("add_extern_module") || f.ends_with("add_extern_module_with_deps")) && c.args.len() >= 3 {
            self.note(&c.args[1], &c.args[2]);
        }
        syn::visit::visit_expr_call(self, c);
    }
}

struct FindRecord {
    found: Vec<TokenStream>,
}
impl<'ast> Visit<'ast> for FindRecord {
    fn visit_macro(&mut self, m: &'ast syn::Macro) {
        if mac_name(m) == "record" {
            self.found.push(m.tokens.clone());
        }
    }
}

pub fn table() -> Result<Table, GenError> {
    let file = parse_file(ITEM, "vm/src/primitives.rs")?;
    // 1. aliases
    let std_mod = file
        .items
        .iter()
        .find_map(|it| match it {
            syn::Item::Mod(m) if m.ident == "std" => Some(toks(m)),
            _ => None,
        })
        .ok_or(GenError { item: ITEM.into(), msg: "mod std not found in primitives.rs".into() })?;
    for frag in ALIASES {
        if !nows(&std_mod).contains(&nows(frag)) {
            return err(ITEM, format!("`mod std` in primitives.rs no longer contains `{}`", frag));
        }
    }
    let types = nows(&toks(&parse_file(ITEM, "vm/src/types.rs")?));
    if !types.contains("pubtypeVmInt=i64;") {
        return err(ITEM, "vm/src/types.rs: `pub type VmInt = i64;` not found");
    }
    // the extern "C" wrapper of `primitive!` (no catch_unwind: a panic in the callee aborts)
    let mac = read_repo("vm/src/api/mac.rs");
    let mac_n: String = mac.split_whitespace().collect::<Vec<_>>().join(" ");
    if !mac_n.contains("extern \"C\" fn wrapper<'thread") || !mac_n.contains("$crate::api::VmFunction::unpack_and_call( &($func as $func_type), thread, )") {
        return err(ITEM, "vm/src/api/mac.rs: the `primitive!` wrapper no longer has the modelled shape (extern \"C\" fn calling unpack_and_call directly)");
    }
    // 2. integer marshalling: `i as $id` casts (api/mod.rs int_impls!)
    let api = read_repo("vm/src/api/mod.rs");
    let api_n: String = api.split_whitespace().collect::<Vec<_>>().join(" ");
    for frag in ["ValueRef::Int(i) => i as $id,", "context.push(ValueRepr::Int(self as VmInt));", "int_impls! { i16 i32 i64 u16 u32 u64 usize isize }"] {
        if !api_n.contains(frag) {
            return err(ITEM, format!("vm/src/api/mod.rs: `{}` not found (integer arguments are modelled as `as` casts)", frag));
        }
    }
    // 3. registrations
    let lib = parse_file(ITEM, "src/lib.rs")?;
    let mut regs = Registrations(vec![]);
    regs.visit_file(&lib);
    // 4. local fns
    let mut locals = std::collections::BTreeMap::new();
    collect_fns("", &file.items, &mut locals);
    // 5. tables
    let mut table = Table { entries: vec![], consts: vec![] };
    for it in &file.items {
        if let syn::Item::Fn(f) = it {
            let fname = f.sig.ident.to_string();
            if !fname.starts_with("load") {
                continue;
            }
            let mut fr = FindRecord { found: vec![] };
            fr.visit_item_fn(f);
            if fr.found.is_empty() {
                continue;
            }
            if fr.found.len() != 1 {
                return err(ITEM, format!("fn {} contains {} top-level record! invocations, expected 1", fname, fr.found.len()));
            }
            let mut mods: Vec<&String> = regs.0.iter().filter(|(f, _)| *f == fname).map(|(_, m)| m).collect();
            mods.dedup();
            if mods.len() != 1 {
                return err(ITEM, format!("fn {} is registered under {} module names in src/lib.rs, expected 1", fname, mods.len()));
            }
            let module = mods[0].clone();
            let mut cx = Ctx { module: &module, locals: &locals, table: &mut table };
            parse_record(&mut cx, "", fr.found.pop().unwrap())?;
        }
    }
    if table.entries.len() < 50 {
        return err(ITEM, format!("only {} primitives found", table.entries.len()));
    }
    Ok(table)
}

fn coq_str(s: &str) -> String {
    let t: String = s.chars().map(|c| if c.is_ascii() && !c.is_ascii_control() { c } else { '?' }).collect();
    format!("\"{}\"", t.replace('"', "\"\""))
}

pub fn generate() -> GenResult {
    let t = table()?;
    let mut s = String::new();
    s.push_str("(* GENERATED by gvh gencoq from /repo/vm/src/primitives.rs (record!/primitive! tables) and\n   /repo/src/lib.rs (module registrations). Do not edit. *)\n");
    s.push_str("From Coq Require Import List String.\nFrom GV Require Import Lib.PrimSig.\nImport ListNotations.\nOpen Scope string_scope.\n\n");
    s.push_str("Definition prim_table : list entry :=\n  [ ");
    let rows: Vec<String> = t
        .entries
        .iter()
        .map(|e| {
            format!(
                "mk_entry {} {} {} {} [{}]",
                coq_str(&e.module),
                coq_str(&e.name),
                e.arity,
                coq_str(&e.callee),
                e.guards.iter().map(|g| coq_str(g)).collect::<Vec<_>>().join("; ")
            )
        })
        .collect();
    s.push_str(&rows.join("\n  ; "));
    s.push_str("\n  ].\n\n");
    s.push_str("Definition prim_consts : list (string * string) :=\n  [ ");
    let rows: Vec<String> = t.consts.iter().map(|(n, v)| format!("({}, {})", coq_str(n), coq_str(v))).collect();
    s.push_str(&rows.join("\n  ; "));
    s.push_str("\n  ].\n");
    Ok(s)
}
