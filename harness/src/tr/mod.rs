//! Translators (tie T): regenerate coq/gen/*.v from /repo's current source.
//! Each translator accepts one narrow source shape and fails loudly otherwise.
use std::path::Path;

pub mod optable;
pub mod layout_tables;
pub mod generation;
pub mod cloner;
pub mod instr;
pub mod instr_codec;
pub mod alloc;
pub mod span;
pub mod prec;
pub mod glu_std;
pub mod primtable;
pub mod stackreset;

pub struct GenError {
    pub item: String,
    pub msg: String,
}

pub type GenResult = Result<String, GenError>;

pub fn err<T>(item: &str, msg: impl Into<String>) -> Result<T, GenError> {
    Err(GenError { item: item.to_string(), msg: msg.into() })
}

pub fn read_repo(rel: &str) -> String {
    let root = std::env::var("GLUON_REPO").unwrap_or_else(|_| "/repo".to_string());
    std::fs::read_to_string(Path::new(&root).join(rel)).unwrap_or_else(|e| panic!("read {}: {}", rel, e))
}

pub fn parse_file(item: &str, rel: &str) -> Result<syn::File, GenError> {
    match syn::parse_file(&read_repo(rel)) {
        Ok(f) => Ok(f),
        Err(e) => err(item, format!("cannot parse {}: {}", rel, e)),
    }
}

/// Write only if the content changed, so that `make` stays incremental.
pub fn write_if_changed(path: &Path, content: &str) -> bool {
    if let Ok(old) = std::fs::read_to_string(path) {
        if old == content {
            return false;
        }
    }
    std::fs::write(path, content).expect("write gen file");
    true
}

pub fn coq_bytes(s: &str) -> String {
    let v: Vec<String> = s.bytes().map(|b| format!("{}", b)).collect();
    format!("[{}]%N", v.join("; "))
}

/// Normalised token text of a syn node (whitespace-insensitive comparisons).
pub fn toks<T: quote::ToTokens>(t: &T) -> String {
    t.to_token_stream().to_string().split_whitespace().collect::<Vec<_>>().join(" ")
}
