//! vm/src/types.rs: `enum Instruction` -> `Inductive instr`, `fn adjust(&self) -> i32` -> `Definition adjust`.
//!
//! Accepted shape (anything else is a loud failure):
//!   * variants: unit | tuple with ONE field of type VmInt/u8/EqFloat/VmIndex/VmTag | struct-like with
//!     named fields of type VmIndex/VmTag;
//!   * `adjust`: a single `match *self { arms }`, each arm `pat | pat | ... => expr` (optionally with a
//!     trailing comma), patterns being `Variant`, `Variant(_)`, `Variant(x)`, `Variant { f, .. }`,
//!     `Variant { .. }`; expressions built from integer literals, `x as i32`, unary `-`, binary `+`/`-`
//!     and parentheses.
//! Field types: VmInt -> Z, everything else (u8, u32 indices, the f64 bit pattern) -> N.
//! `x as i32` is translated to `i32_of_u32 x` (two's complement reinterpretation of a u32), not to the
//! identity, so that the model does not silently assume small operands.
use super::*;
use syn::visit::Visit;

const ITEM: &str = "InstrGen";

#[derive(Clone, Debug)]
pub struct Variant {
    pub name: String,
    /// (field name or positional name, coq type)
    pub fields: Vec<(String, &'static str)>,
    pub named: bool,
}

struct Find {
    enums: Vec<syn::ItemEnum>,
    adjust: Vec<syn::ImplItemFn>,
}
impl<'ast> Visit<'ast> for Find {
    fn visit_item_enum(&mut self, i: &'ast syn::ItemEnum) {
        if i.ident == "Instruction" {
            self.enums.push(i.clone());
        }
    }
    fn visit_item_impl(&mut self, i: &'ast syn::ItemImpl) {
        if toks(&i.self_ty) == "Instruction" && i.trait_.is_none() {
            for it in &i.items {
                if let syn::ImplItem::Fn(f) = it {
                    if f.sig.ident == "adjust" {
                        self.adjust.push(f.clone());
                    }
                }
            }
        }
    }
}

fn coq_ty(t: &syn::Type) -> Result<&'static str, GenError> {
    match toks(t).as_str() {
        "VmInt" => Ok("Z"),
        "u8" | "VmIndex" | "VmTag" | "EqFloat" => Ok("N"),
        other => err(ITEM, format!("unsupported instruction field type `{}`", other)),
    }
}

pub fn variants() -> Result<(Vec<Variant>, syn::ImplItemFn), GenError> {
    let file = parse_file(ITEM, "vm/src/types.rs")?;
    // the aliases the field types rely on
    let src = read_repo("vm/src/types.rs");
    let flat: String = src.split_whitespace().collect::<Vec<_>>().join(" ");
    for frag in ["pub type VmIndex = u32;", "pub type VmTag = u32;", "pub type VmInt = i64;", "pub struct EqFloat(pub f64);"] {
        if !flat.contains(frag) {
            return err(ITEM, format!("types.rs no longer contains `{}`", frag));
        }
    }
    let mut f = Find { enums: vec![], adjust: vec![] };
    f.visit_file(&file);
    if f.enums.len() != 1 {
        return err(ITEM, format!("expected exactly one `enum Instruction`, found {}", f.enums.len()));
    }
    if f.adjust.len() != 1 {
        return err(ITEM, format!("expected exactly one `Instruction::adjust`, found {}", f.adjust.len()));
    }
    let mut out = vec![];
    for v in f.enums[0].variants.iter() {
        if v.discriminant.is_some() {
            return err(ITEM, "explicit discriminant");
        }
        let name = v.ident.to_string();
        match &v.fields {
            syn::Fields::Unit => out.push(Variant { name, fields: vec![], named: false }),
            syn::Fields::Unnamed(u) => {
                if u.unnamed.len() != 1 {
                    return err(ITEM, format!("tuple variant {} has {} fields (expected 1)", name, u.unnamed.len()));
                }
                let ty = coq_ty(&u.unnamed[0].ty)?;
                out.push(Variant { name, fields: vec![("a0".into(), ty)], named: false });
            }
            syn::Fields::Named(n) => {
                let mut fields = vec![];
                for fld in n.named.iter() {
                    let ty = coq_ty(&fld.ty)?;
                    if ty != "N" {
                        return err(ITEM, format!("struct variant {} has a non-index field", name));
                    }
                    fields.push((fld.ident.as_ref().unwrap().to_string(), ty));
                }
                out.push(Variant { name, fields, named: true });
            }
        }
    }
    Ok((out, f.adjust[0].clone()))
}

fn expr_z(e: &syn::Expr, bound: &[String]) -> Result<String, GenError> {
    match e {
        syn::Expr::Lit(syn::ExprLit { lit: syn::Lit::Int(i), .. }) => {
            let v: i64 = i.base10_parse().map_err(|e| GenError { item: ITEM.into(), msg: e.to_string() })?;
            Ok(format!("{}%Z", v))
        }
        syn::Expr::Paren(p) => expr_z(&p.expr, bound),
        syn::Expr::Group(p) => expr_z(&p.expr, bound),
        syn::Expr::Unary(u) => match u.op {
            syn::UnOp::Neg(_) => Ok(format!("(- {})%Z", expr_z(&u.expr, bound)?)),
            _ => err(ITEM, format!("unsupported unary operator in `{}`", toks(e))),
        },
        syn::Expr::Binary(b) => {
            let op = match b.op {
                syn::BinOp::Add(_) => "+",
                syn::BinOp::Sub(_) => "-",
                _ => return err(ITEM, format!("unsupported binary operator in `{}`", toks(e))),
            };
            Ok(format!("({} {} {})%Z", expr_z(&b.left, bound)?, op, expr_z(&b.right, bound)?))
        }
        syn::Expr::Cast(c) => {
            if toks(&c.ty) != "i32" {
                return err(ITEM, format!("cast to `{}` (expected i32)", toks(&c.ty)));
            }
            match &*c.expr {
                syn::Expr::Path(p) if p.path.segments.len() == 1 => {
                    let n = p.path.segments[0].ident.to_string();
                    if !bound.contains(&n) {
                        return err(ITEM, format!("`{}` is not bound by the arm's pattern", n));
                    }
                    Ok(format!("(i32_of_u32 {})", n))
                }
                _ => err(ITEM, format!("cast of a non-variable `{}`", toks(e))),
            }
        }
        _ => err(ITEM, format!("unsupported expression `{}` in adjust", toks(e))),
    }
}

/// One alternative of an arm's pattern -> (coq pattern text, bound variables)
fn pat_coq(p: &syn::Pat, vs: &[Variant]) -> Result<(String, Vec<String>), GenError> {
    let find = |path: &syn::Path| -> Result<&Variant, GenError> {
        let n = path.segments.last().unwrap().ident.to_string();
        vs.iter().find(|v| v.name == n).ok_or(GenError { item: ITEM.into(), msg: format!("unknown variant `{}` in adjust", n) })
    };
    match p {
        syn::Pat::Ident(i) if i.subpat.is_none() && i.by_ref.is_none() => {
            let n = i.ident.to_string();
            let v = vs.iter().find(|v| v.name == n).ok_or(GenError { item: ITEM.into(), msg: format!("catch-all/unknown pattern `{}` in adjust", n) })?;
            if !v.fields.is_empty() {
                return err(ITEM, format!("variant {} matched without its fields", n));
            }
            Ok((format!("I{}", n), vec![]))
        }
        syn::Pat::Path(pp) => {
            let v = find(&pp.path)?;
            if !v.fields.is_empty() {
                return err(ITEM, format!("variant {} matched without its fields", v.name));
            }
            Ok((format!("I{}", v.name), vec![]))
        }
        syn::Pat::TupleStruct(ts) => {
            let v = find(&ts.path)?;
            if v.named || v.fields.len() != ts.elems.len() {
                return err(ITEM, format!("pattern arity mismatch for {}", v.name));
            }
            let mut bound = vec![];
            let mut parts = vec![];
            for e in ts.elems.iter() {
                match e {
                    syn::Pat::Wild(_) => parts.push("_".to_string()),
                    syn::Pat::Ident(i) if i.subpat.is_none() => {
                        bound.push(i.ident.to_string());
                        parts.push(i.ident.to_string());
                    }
                    _ => return err(ITEM, format!("unsupported sub-pattern `{}`", toks(e))),
                }
            }
            Ok((format!("I{} {}", v.name, parts.join(" ")), bound))
        }
        syn::Pat::Struct(st) => {
            let v = find(&st.path)?;
            if !v.named {
                return err(ITEM, format!("struct pattern on tuple variant {}", v.name));
            }
            let mut parts: Vec<String> = v.fields.iter().map(|_| "_".to_string()).collect();
            let mut bound = vec![];
            for f in st.fields.iter() {
                let fname = toks(&f.member);
                let pos = v.fields.iter().position(|x| x.0 == fname).ok_or(GenError { item: ITEM.into(), msg: format!("unknown field {}.{}", v.name, fname) })?;
                match &*f.pat {
                    syn::Pat::Ident(i) if i.subpat.is_none() => {
                        bound.push(i.ident.to_string());
                        parts[pos] = i.ident.to_string();
                    }
                    syn::Pat::Wild(_) => {}
                    _ => return err(ITEM, format!("unsupported field pattern `{}`", toks(&*f.pat))),
                }
            }
            if st.rest.is_none() && st.fields.len() != v.fields.len() {
                return err(ITEM, format!("struct pattern for {} misses fields", v.name));
            }
            Ok((format!("I{} {}", v.name, parts.join(" ")), bound))
        }
        _ => err(ITEM, format!("unsupported pattern `{}` in adjust", toks(p))),
    }
}

fn flatten_or<'a>(p: &'a syn::Pat, out: &mut Vec<&'a syn::Pat>) {
    match p {
        syn::Pat::Or(o) => {
            for c in o.cases.iter() {
                flatten_or(c, out);
            }
        }
        syn::Pat::Paren(pp) => flatten_or(&pp.pat, out),
        _ => out.push(p),
    }
}

pub fn generate() -> GenResult {
    let (vs, adjust) = variants()?;
    // signature: fn adjust(&self) -> i32
    let sig = toks(&adjust.sig);
    if sig != "fn adjust (& self) -> i32" {
        return err(ITEM, format!("unexpected signature `{}`", sig));
    }
    if adjust.block.stmts.len() != 1 {
        return err(ITEM, "adjust body is not a single expression");
    }
    let m = match &adjust.block.stmts[0] {
        syn::Stmt::Expr(syn::Expr::Match(m), None) => m,
        _ => return err(ITEM, "adjust body is not a `match`"),
    };
    if toks(&*m.expr) != "* self" {
        return err(ITEM, format!("adjust matches on `{}` (expected `*self`)", toks(&*m.expr)));
    }
    let mut s = String::new();
    s.push_str("(* GENERATED by gvh gencoq from /repo/vm/src/types.rs (enum Instruction, fn adjust). Do not edit. *)\n");
    s.push_str("From Coq Require Import ZArith NArith.\n\n");
    s.push_str("(* `x as i32` for x : u32 *)\n");
    s.push_str("Definition i32_of_u32 (n : N) : Z :=\n  let z := (Z.of_N n mod 4294967296)%Z in if (z <? 2147483648)%Z then z else (z - 4294967296)%Z.\n\n");
    s.push_str("Inductive instr : Type :=\n");
    for v in &vs {
        let fs: Vec<String> = v.fields.iter().map(|(n, t)| format!("({} : {})", n, t)).collect();
        s.push_str(&format!("| I{}{}{}\n", v.name, if fs.is_empty() { "" } else { " " }, fs.join(" ")));
    }
    s.push_str(".\n\n");
    s.push_str(&format!("Definition instr_variant_count : nat := {}.\n\n", vs.len()));
    s.push_str("Definition adjust (i : instr) : Z :=\n  match i with\n");
    let mut covered = std::collections::BTreeSet::new();
    for arm in m.arms.iter() {
        if arm.guard.is_some() {
            return err(ITEM, "match guard in adjust");
        }
        let mut alts = vec![];
        flatten_or(&arm.pat, &mut alts);
        let mut pats = vec![];
        let mut bound: Option<Vec<String>> = None;
        for a in alts {
            let (p, mut b) = pat_coq(a, &vs)?;
            let vname = p.split_whitespace().next().unwrap().to_string();
            if !covered.insert(vname.clone()) {
                return err(ITEM, format!("variant {} matched twice (first-match semantics not modelled)", vname));
            }
            b.sort();
            match &bound {
                None => bound = Some(b),
                Some(prev) if *prev == b => {}
                Some(_) => return err(ITEM, "or-pattern alternatives bind different variables"),
            }
            pats.push(p);
        }
        let body = expr_z(&arm.body, bound.as_ref().unwrap())?;
        s.push_str(&format!("  | {} => {}\n", pats.join("\n  | "), body));
    }
    if covered.len() != vs.len() {
        return err(ITEM, format!("adjust covers {} of {} variants", covered.len(), vs.len()));
    }
    s.push_str("  end.\n");
    Ok(s)
}
