//! Running MiniGluon programs on the real VM: VM construction (prelude off, `mg.prim` extern
//! module with the effect primitive registered), outcome classification, canonical rendering.
use super::value;
use gluon::vm::api::{Hole, OpaqueValue};
use gluon::vm::ExternModule;
use gluon::{RootedThread, ThreadExt};
use std::cell::RefCell;

thread_local! {
    /// The effect log of the thread that runs the VM (gluon evaluates `run_expr` on the calling
    /// thread).  `eff n` appends `n`.
    static LOG: RefCell<Vec<i64>> = RefCell::new(Vec::new());
}

fn eff(n: i64) -> i64 {
    LOG.with(|l| l.borrow_mut().push(n));
    n
}

/// Clears the effect log of this thread.
pub fn log_clear() {
    LOG.with(|l| l.borrow_mut().clear());
}
/// Takes (and clears) the effect log of this thread.
pub fn log_take() -> Vec<i64> {
    LOG.with(|l| std::mem::take(&mut *l.borrow_mut()))
}

/// Registers the extern module `mg.prim` = `{ eff : Int -> Int }` on `vm`.
pub fn register_eff(vm: &gluon::Thread) {
    gluon::import::add_extern_module(vm, "mg.prim", |thread| {
        ExternModule::new(thread, gluon::record! { eff => gluon::primitive!(1, "mg.prim.eff", eff) })
    });
}

/// Options of [`new_vm_with`].
#[derive(Clone, Debug)]
pub struct VmOptions {
    /// keep the implicit prelude (`+`, `==` … through implicit arguments); default off
    pub prelude: bool,
    /// `Settings::optimize`; `None` keeps the VM's default
    pub optimize: Option<bool>,
}
impl Default for VmOptions {
    fn default() -> Self {
        VmOptions { prelude: false, optimize: None }
    }
}

/// A fresh VM without the implicit prelude and with `mg.prim` registered.
pub fn new_vm() -> RootedThread {
    new_vm_with(&VmOptions::default())
}

pub fn new_vm_with(o: &VmOptions) -> RootedThread {
    let vm = gluon::VmBuilder::new().build();
    {
        let mut db = vm.get_database_mut();
        db.set_implicit_prelude(o.prelude);
        if let Some(opt) = o.optimize {
            db.set_optimize(opt);
        }
    }
    register_eff(&vm);
    vm
}

/// Kind of a failed run, as far as MiniGluon distinguishes them.
#[derive(Clone, Debug, PartialEq, Eq)]
pub enum ErrKind {
    /// `error "msg"` (vm::Error::Panic with the message)
    Explicit(String),
    /// no alternative of a `match` applied (vm::Error::Panic("Unmatched pattern"))
    Unmatched,
    /// checked Int arithmetic: overflow or division by zero
    Arith,
    StackOverflow,
    OutOfMemory,
    /// the front end refused the program (parse / macro error)
    Parse(String),
    /// the type checker refused the program
    Typecheck(String),
    /// a Rust panic caught while running
    HostPanic(String),
    Other(String),
}

/// What a run produced.
#[derive(Clone, Debug, PartialEq, Eq)]
pub enum Outcome {
    /// canonical value rendering (see [`value`]) and the effect log
    Val(String, Vec<i64>),
    Err(ErrKind, Vec<i64>),
}

fn log_str(l: &[i64]) -> String {
    let mut s = String::from("(log");
    for x in l {
        s.push(' ');
        s.push_str(&x.to_string());
    }
    s.push(')');
    s
}

fn one_line(s: &str) -> String {
    s.replace('\n', " | ").replace('\r', "")
}

impl Outcome {
    /// `(val <value> (log ..))` | `(err <kind> [<text as byte list>] (log ..))`
    pub fn canonical(&self) -> String {
        match self {
            Outcome::Val(v, l) => format!("(val {} {})", v, log_str(l)),
            Outcome::Err(k, l) => {
                let k = match k {
                    ErrKind::Explicit(m) if m.is_empty() => "explicit".to_string(),
                    ErrKind::Explicit(m) => format!("explicit {}", value::bytes(m.as_bytes())),
                    ErrKind::Unmatched => "unmatched".to_string(),
                    ErrKind::Arith => "arith".to_string(),
                    ErrKind::StackOverflow => "stackoverflow".to_string(),
                    ErrKind::OutOfMemory => "oom".to_string(),
                    ErrKind::Parse(m) => format!("other parse: {}", one_line(m)),
                    ErrKind::Typecheck(m) => format!("other typecheck: {}", one_line(m)),
                    ErrKind::HostPanic(m) => format!("other hostpanic: {}", one_line(m)),
                    ErrKind::Other(m) => format!("other {}", one_line(m)),
                };
                format!("(err {} {})", k, log_str(l))
            }
        }
    }
    pub fn is_val(&self) -> bool {
        matches!(self, Outcome::Val(..))
    }
    /// short class name for histograms: val, explicit, unmatched, arith, stackoverflow, oom, parse,
    /// typecheck, hostpanic, other
    pub fn class(&self) -> &'static str {
        match self {
            Outcome::Val(..) => "val",
            Outcome::Err(k, _) => match k {
                ErrKind::Explicit(_) => "explicit",
                ErrKind::Unmatched => "unmatched",
                ErrKind::Arith => "arith",
                ErrKind::StackOverflow => "stackoverflow",
                ErrKind::OutOfMemory => "oom",
                ErrKind::Parse(_) => "parse",
                ErrKind::Typecheck(_) => "typecheck",
                ErrKind::HostPanic(_) => "hostpanic",
                ErrKind::Other(_) => "other",
            },
        }
    }
}

/// Classifies a `gluon::Error`.
pub fn classify(e: &gluon::Error) -> ErrKind {
    use gluon::vm::Error as V;
    match e {
        gluon::Error::VM(v) => match v {
            V::Panic(msg, _) => {
                if msg == "Unmatched pattern" {
                    ErrKind::Unmatched
                } else {
                    ErrKind::Explicit(msg.clone())
                }
            }
            V::Message(m) if m == "Arithmetic overflow" => ErrKind::Arith,
            V::StackOverflow(_) => ErrKind::StackOverflow,
            V::OutOfMemory { .. } => ErrKind::OutOfMemory,
            other => ErrKind::Other(format!("vm: {}", other)),
        },
        gluon::Error::Parse(p) => ErrKind::Parse(format!("{}", p)),
        gluon::Error::Macro(p) => ErrKind::Parse(format!("{}", p)),
        gluon::Error::Typecheck(t) => ErrKind::Typecheck(format!("{}", t)),
        gluon::Error::Multiple(es) => {
            // report the first classified member
            match es.iter().next() {
                Some(e) => classify(e),
                None => ErrKind::Other("empty Multiple".into()),
            }
        }
        other => ErrKind::Other(format!("{}", other)),
    }
}

/// Runs `src` on `vm` and renders the value with `render` (called while the value is rooted).
pub fn run_with<F>(vm: &RootedThread, src: &str, render: F) -> Outcome
where
    F: FnOnce(&gluon::Thread, gluon::vm::Variants<'_>) -> String,
{
    log_clear();
    let r = std::panic::catch_unwind(std::panic::AssertUnwindSafe(|| {
        match vm.run_expr::<OpaqueValue<RootedThread, Hole>>("mg", src) {
            Ok((v, _ty)) => Ok(render(vm, v.get_variant())),
            Err(e) => Err(classify(&e)),
        }
    }));
    let log = log_take();
    match r {
        Ok(Ok(s)) => Outcome::Val(s, log),
        Ok(Err(k)) => Outcome::Err(k, log),
        Err(p) => {
            let msg = if let Some(s) = p.downcast_ref::<String>() {
                s.clone()
            } else if let Some(s) = p.downcast_ref::<&str>() {
                s.to_string()
            } else {
                "panic".to_string()
            };
            Outcome::Err(ErrKind::HostPanic(msg), log)
        }
    }
}

/// Runs `src`; the value is rendered untyped ([`value::canon`]).
pub fn run(vm: &RootedThread, src: &str) -> Outcome {
    run_with(vm, src, |t, v| value::canon(t, v))
}

/// Runs the printed program; the value is rendered with the program's static type
/// ([`value::canon_typed`]), which recovers record field names.
pub fn run_program(vm: &RootedThread, p: &super::ast::Program, src: &str) -> Outcome {
    run_with(vm, src, |t, v| value::canon_typed(t, v, &p.ty, &p.types))
}
