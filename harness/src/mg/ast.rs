//! MiniGluon abstract syntax (the Rust mirror of `coq/theories/Lang/Syntax.v`).
//!
//! Names are plain strings.  Variables and field names start with a lower-case letter or `_`,
//! constructors and type names with an upper-case letter (the Gluon parser decides
//! constructor-vs-variable by the case of the first letter).
//!
//! Builtin types known to every program (never listed in `Program::types`):
//!   `Bool` with constructors `False` (tag 0) and `True` (tag 1)   — `Ty::Bool`
//!   `()`   the empty tuple                                        — `Ty::Unit`, `Expr::Tuple(vec![])`

pub type Name = String;

#[derive(Clone, Debug, PartialEq)]
pub enum Lit {
    Int(i64),
    Byte(u8),
    /// a Unicode scalar value; the VM stores it as an Int-like value
    Char(char),
    Str(String),
    /// IEEE-754 bit pattern; floats are only moved around, never computed on
    Float(u64),
}

/// Binary primitive operators on Int (`#Int+` …) and Byte (`#Byte+` …).
#[derive(Clone, Copy, Debug, PartialEq, Eq, Hash)]
pub enum PrimOp {
    IntAdd,
    IntSub,
    IntMul,
    IntDiv,
    IntEq,
    IntLt,
    ByteAdd,
    ByteSub,
    ByteMul,
    ByteDiv,
    ByteEq,
    ByteLt,
}

impl PrimOp {
    pub const ALL: [PrimOp; 12] = [
        PrimOp::IntAdd, PrimOp::IntSub, PrimOp::IntMul, PrimOp::IntDiv, PrimOp::IntEq, PrimOp::IntLt,
        PrimOp::ByteAdd, PrimOp::ByteSub, PrimOp::ByteMul, PrimOp::ByteDiv, PrimOp::ByteEq, PrimOp::ByteLt,
    ];
    /// the Gluon spelling without the prelude, e.g. `#Int+`
    pub fn gluon(self) -> &'static str {
        match self {
            PrimOp::IntAdd => "#Int+",
            PrimOp::IntSub => "#Int-",
            PrimOp::IntMul => "#Int*",
            PrimOp::IntDiv => "#Int/",
            PrimOp::IntEq => "#Int==",
            PrimOp::IntLt => "#Int<",
            PrimOp::ByteAdd => "#Byte+",
            PrimOp::ByteSub => "#Byte-",
            PrimOp::ByteMul => "#Byte*",
            PrimOp::ByteDiv => "#Byte/",
            PrimOp::ByteEq => "#Byte==",
            PrimOp::ByteLt => "#Byte<",
        }
    }
    /// the atom used in the s-expression rendering, e.g. `int_add`
    pub fn atom(self) -> &'static str {
        match self {
            PrimOp::IntAdd => "int_add",
            PrimOp::IntSub => "int_sub",
            PrimOp::IntMul => "int_mul",
            PrimOp::IntDiv => "int_div",
            PrimOp::IntEq => "int_eq",
            PrimOp::IntLt => "int_lt",
            PrimOp::ByteAdd => "byte_add",
            PrimOp::ByteSub => "byte_sub",
            PrimOp::ByteMul => "byte_mul",
            PrimOp::ByteDiv => "byte_div",
            PrimOp::ByteEq => "byte_eq",
            PrimOp::ByteLt => "byte_lt",
        }
    }
    pub fn is_int(self) -> bool {
        matches!(self, PrimOp::IntAdd | PrimOp::IntSub | PrimOp::IntMul | PrimOp::IntDiv | PrimOp::IntEq | PrimOp::IntLt)
    }
    /// comparison (result `Bool`) as opposed to arithmetic (result = operand type)
    pub fn is_cmp(self) -> bool {
        matches!(self, PrimOp::IntEq | PrimOp::IntLt | PrimOp::ByteEq | PrimOp::ByteLt)
    }
    pub fn operand_ty(self) -> Ty {
        if self.is_int() { Ty::Int } else { Ty::Byte }
    }
    pub fn result_ty(self) -> Ty {
        if self.is_cmp() { Ty::Bool } else { self.operand_ty() }
    }
}

#[derive(Clone, Debug, PartialEq)]
pub enum Ty {
    Int,
    Byte,
    Char,
    Str,
    Float,
    Bool,
    Unit,
    /// `a1 -> … -> an -> r` (n ≥ 1).  `Fun([a], Fun([b], r))` and `Fun([a, b], r)` denote the same
    /// Gluon type; use [`Ty::fun`] / [`Ty::uncurry`] to normalise.
    Fun(Vec<Ty>, Box<Ty>),
    /// `{ l1 : t1, … }` — field order is significant
    Record(Vec<(Name, Ty)>),
    /// `(t1, …, tn)`, n ≥ 2
    Tuple(Vec<Ty>),
    /// a declared variant type applied to its parameters
    Named(Name, Vec<Ty>),
    Array(Box<Ty>),
    /// a type parameter of a [`TypeDecl`] (or of a polymorphic binding)
    Var(Name),
}

impl Ty {
    /// smart constructor: flattens nested arrows, returns `ret` itself for no arguments
    pub fn fun(args: Vec<Ty>, ret: Ty) -> Ty {
        if args.is_empty() {
            return ret;
        }
        match ret {
            Ty::Fun(mut more, r) => {
                let mut a = args;
                a.append(&mut more);
                Ty::Fun(a, r)
            }
            r => Ty::Fun(args, Box::new(r)),
        }
    }
    /// all argument types and the final (non-function) result
    pub fn uncurry(&self) -> (Vec<Ty>, Ty) {
        match self {
            Ty::Fun(a, r) => {
                let (mut more, res) = r.uncurry();
                let mut a = a.clone();
                a.append(&mut more);
                (a, res)
            }
            t => (vec![], t.clone()),
        }
    }
    pub fn named(n: &str) -> Ty {
        Ty::Named(n.to_string(), vec![])
    }
    /// substitutes type variables
    pub fn subst(&self, s: &[(Name, Ty)]) -> Ty {
        match self {
            Ty::Var(v) => s.iter().find(|(n, _)| n == v).map(|(_, t)| t.clone()).unwrap_or_else(|| self.clone()),
            Ty::Fun(a, r) => Ty::Fun(a.iter().map(|t| t.subst(s)).collect(), Box::new(r.subst(s))),
            Ty::Record(fs) => Ty::Record(fs.iter().map(|(n, t)| (n.clone(), t.subst(s))).collect()),
            Ty::Tuple(ts) => Ty::Tuple(ts.iter().map(|t| t.subst(s)).collect()),
            Ty::Named(n, ts) => Ty::Named(n.clone(), ts.iter().map(|t| t.subst(s)).collect()),
            Ty::Array(t) => Ty::Array(Box::new(t.subst(s))),
            t => t.clone(),
        }
    }
    /// does a value of this type contain no function (so that it can be compared exactly)?
    pub fn is_first_order(&self, _types: &[TypeDecl]) -> bool {
        match self {
            Ty::Fun(..) => false,
            Ty::Record(fs) => fs.iter().all(|(_, t)| t.is_first_order(_types)),
            Ty::Tuple(ts) => ts.iter().all(|t| t.is_first_order(_types)),
            Ty::Array(t) => t.is_first_order(_types),
            _ => true,
        }
    }
}

/// `type Name params = | C1 t… | C2 t… …`; the tag of a constructor is its index.
#[derive(Clone, Debug, PartialEq)]
pub struct TypeDecl {
    pub name: Name,
    pub params: Vec<Name>,
    pub ctors: Vec<(Name, Vec<Ty>)>,
}

#[derive(Clone, Debug, PartialEq)]
pub enum Pat {
    Wild,
    Var(Name),
    Lit(Lit),
    /// `C p1 … pn` (saturated); `True` / `False` are `Con("True", [])` / `Con("False", [])`
    Con(Name, Vec<Pat>),
    /// `{ l1 = p1, l2, … }` — `None` is the punned form that binds the variable `l`.  Any subset
    /// of the record's fields in any order.
    Record(Vec<(Name, Option<Pat>)>),
    /// `(p1, …, pn)`, n ≥ 2, or `()` for n = 0
    Tuple(Vec<Pat>),
    /// `x@p`
    As(Name, Box<Pat>),
}

/// One function of a `rec let` group: `rec let f x y = body`.
#[derive(Clone, Debug, PartialEq)]
pub struct RecBind {
    pub name: Name,
    /// at least one parameter (recursive *values* are not part of MiniGluon yet)
    pub params: Vec<Name>,
    pub body: Expr,
}

#[derive(Clone, Debug, PartialEq)]
pub enum Expr {
    Lit(Lit),
    Var(Name),
    /// `\x y -> e` (at least one parameter)
    Lam(Vec<Name>, Box<Expr>),
    /// `f a1 … an` (n ≥ 1); `f` may have any arity: fewer arguments build a partial application,
    /// more arguments are passed on to the result
    App(Box<Expr>, Vec<Expr>),
    /// `let p = e1 in e2`, not recursive
    Let(Pat, Box<Expr>, Box<Expr>),
    /// `rec let f1 x… = e1  rec let f2 y… = e2 … in body`, mutually recursive functions
    Rec(Vec<RecBind>, Box<Expr>),
    If(Box<Expr>, Box<Expr>, Box<Expr>),
    Prim(PrimOp, Box<Expr>, Box<Expr>),
    And(Box<Expr>, Box<Expr>),
    Or(Box<Expr>, Box<Expr>),
    /// `{ l1 = e1, …, .. base }`
    Record(Vec<(Name, Expr)>, Option<Box<Expr>>),
    Proj(Box<Expr>, Name),
    /// `(e1, …, en)`, n ≥ 2, or `()` for n = 0
    Tuple(Vec<Expr>),
    /// saturated constructor application; `True` / `False` are `Con("True", [])` …
    Con(Name, Vec<Expr>),
    Array(Vec<Expr>),
    /// `array.index a i` / `array.len a` of `std.array.prim`
    ArrayIndex(Box<Expr>, Box<Expr>),
    ArrayLen(Box<Expr>),
    /// `match e with | p1 -> e1 …`
    Match(Box<Expr>, Vec<(Pat, Expr)>),
    /// block `e1` newline `e2`: evaluates `e1` (of type `()`), discards it, then `e2`
    Seq(Box<Expr>, Box<Expr>),
    /// `error "msg"` (of any type)
    Error(String),
    /// `eff e`: evaluates `e : Int`, appends the value to the effect log, returns it
    Eff(Box<Expr>),
    /// `(e : t)`
    Ann(Box<Expr>, Ty),
}

/// A closed, well-typed program: type declarations, the expression and its type.
#[derive(Clone, Debug, PartialEq)]
pub struct Program {
    pub types: Vec<TypeDecl>,
    pub expr: Expr,
    pub ty: Ty,
}

// ---------------------------------------------------------------- convenience constructors
pub fn int(n: i64) -> Expr {
    Expr::Lit(Lit::Int(n))
}
pub fn var(x: &str) -> Expr {
    Expr::Var(x.to_string())
}
pub fn lam(xs: &[&str], e: Expr) -> Expr {
    Expr::Lam(xs.iter().map(|s| s.to_string()).collect(), Box::new(e))
}
pub fn app(f: Expr, args: Vec<Expr>) -> Expr {
    Expr::App(Box::new(f), args)
}
pub fn let_(x: &str, e: Expr, b: Expr) -> Expr {
    Expr::Let(Pat::Var(x.to_string()), Box::new(e), Box::new(b))
}
pub fn prim(op: PrimOp, a: Expr, b: Expr) -> Expr {
    Expr::Prim(op, Box::new(a), Box::new(b))
}
pub fn eff(e: Expr) -> Expr {
    Expr::Eff(Box::new(e))
}
pub fn bool_(b: bool) -> Expr {
    Expr::Con(if b { "True" } else { "False" }.to_string(), vec![])
}
pub fn unit() -> Expr {
    Expr::Tuple(vec![])
}

impl Expr {
    /// number of AST nodes (expressions and patterns)
    pub fn size(&self) -> usize {
        let mut n = 0;
        self.visit(&mut |_| n += 1);
        n
    }

    /// calls `f` on every sub-expression (pre-order), including `self`
    pub fn visit<'a>(&'a self, f: &mut dyn FnMut(&'a Expr)) {
        f(self);
        match self {
            Expr::Lit(_) | Expr::Var(_) | Expr::Error(_) => {}
            Expr::Lam(_, b) => b.visit(f),
            Expr::App(g, args) => {
                g.visit(f);
                for a in args {
                    a.visit(f)
                }
            }
            Expr::Let(_, a, b) | Expr::Prim(_, a, b) | Expr::And(a, b) | Expr::Or(a, b) | Expr::Seq(a, b) | Expr::ArrayIndex(a, b) => {
                a.visit(f);
                b.visit(f)
            }
            Expr::Rec(bs, b) => {
                for r in bs {
                    r.body.visit(f)
                }
                b.visit(f)
            }
            Expr::If(a, b, c) => {
                a.visit(f);
                b.visit(f);
                c.visit(f)
            }
            Expr::Record(fs, base) => {
                for (_, e) in fs {
                    e.visit(f)
                }
                if let Some(b) = base {
                    b.visit(f)
                }
            }
            Expr::Proj(e, _) | Expr::ArrayLen(e) | Expr::Eff(e) | Expr::Ann(e, _) => e.visit(f),
            Expr::Tuple(es) | Expr::Con(_, es) | Expr::Array(es) => {
                for e in es {
                    e.visit(f)
                }
            }
            Expr::Match(s, alts) => {
                s.visit(f);
                for (_, e) in alts {
                    e.visit(f)
                }
            }
        }
    }

    /// short name of the top construct (histograms)
    pub fn kind(&self) -> &'static str {
        match self {
            Expr::Lit(Lit::Int(_)) => "int",
            Expr::Lit(Lit::Byte(_)) => "byte",
            Expr::Lit(Lit::Char(_)) => "char",
            Expr::Lit(Lit::Str(_)) => "str",
            Expr::Lit(Lit::Float(_)) => "float",
            Expr::Var(_) => "var",
            Expr::Lam(..) => "lam",
            Expr::App(..) => "app",
            Expr::Let(..) => "let",
            Expr::Rec(..) => "rec",
            Expr::If(..) => "if",
            Expr::Prim(..) => "prim",
            Expr::And(..) => "and",
            Expr::Or(..) => "or",
            Expr::Record(_, None) => "record",
            Expr::Record(_, Some(_)) => "record-update",
            Expr::Proj(..) => "proj",
            Expr::Tuple(..) => "tuple",
            Expr::Con(..) => "con",
            Expr::Array(..) => "array",
            Expr::ArrayIndex(..) => "array-index",
            Expr::ArrayLen(..) => "array-len",
            Expr::Match(..) => "match",
            Expr::Seq(..) => "seq",
            Expr::Error(_) => "error",
            Expr::Eff(_) => "eff",
            Expr::Ann(..) => "ann",
        }
    }

    /// does the program bind at least one variable (lambda, let, rec, or a binding pattern)?
    pub fn has_binder(&self) -> bool {
        let mut b = false;
        self.visit(&mut |e| match e {
            Expr::Lam(..) | Expr::Rec(..) => b = true,
            Expr::Let(p, ..) => {
                if p.binds() {
                    b = true
                }
            }
            Expr::Match(_, alts) => {
                if alts.iter().any(|(p, _)| p.binds()) {
                    b = true
                }
            }
            _ => {}
        });
        b
    }
}

impl Pat {
    pub fn binds(&self) -> bool {
        !self.vars().is_empty()
    }
    /// variables bound by the pattern, left to right
    pub fn vars(&self) -> Vec<Name> {
        fn go(p: &Pat, out: &mut Vec<Name>) {
            match p {
                Pat::Wild | Pat::Lit(_) => {}
                Pat::Var(x) => out.push(x.clone()),
                Pat::Con(_, ps) | Pat::Tuple(ps) => {
                    for p in ps {
                        go(p, out)
                    }
                }
                Pat::Record(fs) => {
                    for (l, p) in fs {
                        match p {
                            None => out.push(l.clone()),
                            Some(p) => go(p, out),
                        }
                    }
                }
                Pat::As(x, p) => {
                    out.push(x.clone());
                    go(p, out)
                }
            }
        }
        let mut v = vec![];
        go(self, &mut v);
        v
    }
}

impl Program {
    /// the builtin `Bool` declaration (for consumers that want a uniform constructor table)
    pub fn bool_decl() -> TypeDecl {
        TypeDecl { name: "Bool".into(), params: vec![], ctors: vec![("False".into(), vec![]), ("True".into(), vec![])] }
    }
    /// (type declaration, constructor index) of a constructor name; `Bool` included
    pub fn find_ctor(&self, c: &str) -> Option<(TypeDecl, usize)> {
        find_ctor(&self.types, c)
    }
    /// "non-trivial" by the rule used in the evidence: more than a literal and at least one binder
    pub fn nontrivial(&self) -> bool {
        self.expr.size() > 1 && self.expr.has_binder()
    }
}

pub fn find_ctor(types: &[TypeDecl], c: &str) -> Option<(TypeDecl, usize)> {
    if c == "False" || c == "True" {
        return Some((Program::bool_decl(), if c == "True" { 1 } else { 0 }));
    }
    for d in types {
        if let Some(i) = d.ctors.iter().position(|(n, _)| n == c) {
            return Some((d.clone(), i));
        }
    }
    None
}
