//! S-expression rendering of MiniGluon programs for the Coq model drivers (one program per line).
//!
//! ```text
//! program ::= (prog (types decl…) expr type)
//! decl    ::= (T (a…) ((C tag type…)…))
//! expr    ::= (int n) | (byte n) | (char n) | (str b…) | (f64 hhhhhhhhhhhhhhhh)      literals (bytes / code point in decimal)
//!           | (var x) | (lam (x…) e) | (app e e…)
//!           | (let p e e) | (rec ((f (x…) e)…) e)
//!           | (if e e e) | (prim op e e) | (and e e) | (or e e)
//!           | (rcd ((l e)…)) | (rcdu ((l e)…) e)          record, record update `{ l = e, .. base }`
//!           | (proj e l) | (tup e…) | (con C tag e…) | (arr e…) | (aidx e e) | (alen e)
//!           | (match e ((p e)…)) | (seq e e) | (error b…) | (eff e) | (ann e type)
//! op      ::= int_add int_sub int_mul int_div int_eq int_lt byte_add byte_sub byte_mul byte_div byte_eq byte_lt
//! pat     ::= (pwild) | (pvar x) | (plit literal) | (pcon C tag p…) | (prcd ((l p)…)) | (ptup p…) | (pas x p)
//! type    ::= int | byte | char | str | float | bool | unit | (fun (t…) t) | (trcd ((l t)…)) | (ttup t…)
//!           | (named T t…) | (tarr t) | (tvar a)
//! ```
//! Constructor tags are resolved here (index in the declaration; `False` = 0, `True` = 1), a punned
//! record-pattern field `{ l }` is rendered `(l (pvar l))`.  Names are atoms
//! `[A-Za-z_][A-Za-z0-9_']*`; the tuple field names are `_0`, `_1`, ….
use super::ast::*;

fn lit(l: &Lit, out: &mut String) {
    match l {
        Lit::Int(n) => out.push_str(&format!("(int {})", n)),
        Lit::Byte(b) => out.push_str(&format!("(byte {})", b)),
        Lit::Char(c) => out.push_str(&format!("(char {})", *c as u32)),
        Lit::Str(s) => {
            out.push_str("(str");
            for b in s.bytes() {
                out.push_str(&format!(" {}", b));
            }
            out.push(')');
        }
        Lit::Float(bits) => out.push_str(&format!("(f64 {:016x})", bits)),
    }
}

pub fn ty_to_sexp(t: &Ty) -> String {
    let mut s = String::new();
    ty(t, &mut s);
    s
}
fn ty(t: &Ty, out: &mut String) {
    match t {
        Ty::Int => out.push_str("int"),
        Ty::Byte => out.push_str("byte"),
        Ty::Char => out.push_str("char"),
        Ty::Str => out.push_str("str"),
        Ty::Float => out.push_str("float"),
        Ty::Bool => out.push_str("bool"),
        Ty::Unit => out.push_str("unit"),
        Ty::Fun(a, r) => {
            out.push_str("(fun (");
            for (i, x) in a.iter().enumerate() {
                if i > 0 {
                    out.push(' ');
                }
                ty(x, out);
            }
            out.push_str(") ");
            ty(r, out);
            out.push(')');
        }
        Ty::Record(fs) => {
            out.push_str("(trcd (");
            for (i, (l, x)) in fs.iter().enumerate() {
                if i > 0 {
                    out.push(' ');
                }
                out.push_str(&format!("({} ", l));
                ty(x, out);
                out.push(')');
            }
            out.push_str("))");
        }
        Ty::Tuple(ts) => {
            out.push_str("(ttup");
            for x in ts {
                out.push(' ');
                ty(x, out);
            }
            out.push(')');
        }
        Ty::Named(n, ts) => {
            out.push_str(&format!("(named {}", n));
            for x in ts {
                out.push(' ');
                ty(x, out);
            }
            out.push(')');
        }
        Ty::Array(x) => {
            out.push_str("(tarr ");
            ty(x, out);
            out.push(')');
        }
        Ty::Var(v) => out.push_str(&format!("(tvar {})", v)),
    }
}

fn tag_of(types: &[TypeDecl], c: &str) -> usize {
    find_ctor(types, c).map(|(_, i)| i).unwrap_or(usize::MAX)
}

fn pat(types: &[TypeDecl], p: &Pat, out: &mut String) {
    match p {
        Pat::Wild => out.push_str("(pwild)"),
        Pat::Var(x) => out.push_str(&format!("(pvar {})", x)),
        Pat::Lit(l) => {
            out.push_str("(plit ");
            lit(l, out);
            out.push(')');
        }
        Pat::Con(c, ps) => {
            out.push_str(&format!("(pcon {} {}", c, tag_of(types, c)));
            for p in ps {
                out.push(' ');
                pat(types, p, out);
            }
            out.push(')');
        }
        Pat::Record(fs) => {
            out.push_str("(prcd (");
            for (i, (l, p)) in fs.iter().enumerate() {
                if i > 0 {
                    out.push(' ');
                }
                out.push_str(&format!("({} ", l));
                match p {
                    None => out.push_str(&format!("(pvar {})", l)),
                    Some(p) => pat(types, p, out),
                }
                out.push(')');
            }
            out.push_str("))");
        }
        Pat::Tuple(ps) => {
            out.push_str("(ptup");
            for p in ps {
                out.push(' ');
                pat(types, p, out);
            }
            out.push(')');
        }
        Pat::As(x, p) => {
            out.push_str(&format!("(pas {} ", x));
            pat(types, p, out);
            out.push(')');
        }
    }
}

fn list(types: &[TypeDecl], head: &str, es: &[&Expr], out: &mut String) {
    out.push('(');
    out.push_str(head);
    for e in es {
        out.push(' ');
        expr(types, e, out);
    }
    out.push(')');
}

fn expr(types: &[TypeDecl], e: &Expr, out: &mut String) {
    match e {
        Expr::Lit(l) => lit(l, out),
        Expr::Var(x) => out.push_str(&format!("(var {})", x)),
        Expr::Lam(ps, b) => {
            out.push_str(&format!("(lam ({}) ", ps.join(" ")));
            expr(types, b, out);
            out.push(')');
        }
        Expr::App(f, args) => {
            let mut v: Vec<&Expr> = vec![f];
            v.extend(args.iter());
            list(types, "app", &v, out)
        }
        Expr::Let(p, a, b) => {
            out.push_str("(let ");
            pat(types, p, out);
            out.push(' ');
            expr(types, a, out);
            out.push(' ');
            expr(types, b, out);
            out.push(')');
        }
        Expr::Rec(bs, b) => {
            out.push_str("(rec (");
            for (i, r) in bs.iter().enumerate() {
                if i > 0 {
                    out.push(' ');
                }
                out.push_str(&format!("({} ({}) ", r.name, r.params.join(" ")));
                expr(types, &r.body, out);
                out.push(')');
            }
            out.push_str(") ");
            expr(types, b, out);
            out.push(')');
        }
        Expr::If(a, b, c) => list(types, "if", &[a, b, c], out),
        Expr::Prim(op, a, b) => list(types, &format!("prim {}", op.atom()), &[a, b], out),
        Expr::And(a, b) => list(types, "and", &[a, b], out),
        Expr::Or(a, b) => list(types, "or", &[a, b], out),
        Expr::Record(fs, base) => {
            out.push_str(if base.is_some() { "(rcdu (" } else { "(rcd (" });
            for (i, (l, e)) in fs.iter().enumerate() {
                if i > 0 {
                    out.push(' ');
                }
                out.push_str(&format!("({} ", l));
                expr(types, e, out);
                out.push(')');
            }
            out.push(')');
            if let Some(b) = base {
                out.push(' ');
                expr(types, b, out);
            }
            out.push(')');
        }
        Expr::Proj(e, l) => {
            out.push_str("(proj ");
            expr(types, e, out);
            out.push_str(&format!(" {})", l));
        }
        Expr::Tuple(es) => list(types, "tup", &es.iter().collect::<Vec<_>>(), out),
        Expr::Con(c, es) => list(types, &format!("con {} {}", c, tag_of(types, c)), &es.iter().collect::<Vec<_>>(), out),
        Expr::Array(es) => list(types, "arr", &es.iter().collect::<Vec<_>>(), out),
        Expr::ArrayIndex(a, i) => list(types, "aidx", &[a, i], out),
        Expr::ArrayLen(a) => list(types, "alen", &[a], out),
        Expr::Match(s, alts) => {
            out.push_str("(match ");
            expr(types, s, out);
            out.push_str(" (");
            for (i, (p, e)) in alts.iter().enumerate() {
                if i > 0 {
                    out.push(' ');
                }
                out.push('(');
                pat(types, p, out);
                out.push(' ');
                expr(types, e, out);
                out.push(')');
            }
            out.push_str("))");
        }
        Expr::Seq(a, b) => list(types, "seq", &[a, b], out),
        Expr::Error(m) => {
            out.push_str("(error");
            for b in m.bytes() {
                out.push_str(&format!(" {}", b));
            }
            out.push(')');
        }
        Expr::Eff(e) => list(types, "eff", &[e], out),
        Expr::Ann(e, t) => {
            out.push_str("(ann ");
            expr(types, e, out);
            out.push(' ');
            ty(t, out);
            out.push(')');
        }
    }
}

pub fn expr_to_sexp(types: &[TypeDecl], e: &Expr) -> String {
    let mut s = String::new();
    expr(types, e, &mut s);
    s
}

pub fn types_to_sexp(types: &[TypeDecl]) -> String {
    let mut out = String::from("(types");
    for d in types {
        out.push_str(&format!(" ({} ({}) (", d.name, d.params.join(" ")));
        for (i, (c, ts)) in d.ctors.iter().enumerate() {
            if i > 0 {
                out.push(' ');
            }
            out.push_str(&format!("({} {}", c, i));
            for t in ts {
                out.push(' ');
                ty(t, &mut out);
            }
            out.push(')');
        }
        out.push_str("))");
    }
    out.push(')');
    out
}

/// One line: `(prog (types …) <expr> <type>)`.
pub fn program_to_sexp(p: &Program) -> String {
    format!("(prog {} {} {})", types_to_sexp(&p.types), expr_to_sexp(&p.types, &p.expr), ty_to_sexp(&p.ty))
}

// ------------------------------------------------------------------ reader (corpus / replay files)

#[derive(Clone, Debug, PartialEq)]
pub enum Sx {
    Atom(String),
    List(Vec<Sx>),
}

pub fn parse_sx(s: &str) -> Result<Sx, String> {
    let b = s.as_bytes();
    let mut pos = 0usize;
    fn skip(b: &[u8], pos: &mut usize) {
        while *pos < b.len() && (b[*pos] as char).is_ascii_whitespace() {
            *pos += 1;
        }
    }
    fn go(b: &[u8], pos: &mut usize) -> Result<Sx, String> {
        skip(b, pos);
        if *pos >= b.len() {
            return Err("unexpected end".into());
        }
        if b[*pos] == b'(' {
            *pos += 1;
            let mut items = vec![];
            loop {
                skip(b, pos);
                if *pos >= b.len() {
                    return Err("missing )".into());
                }
                if b[*pos] == b')' {
                    *pos += 1;
                    return Ok(Sx::List(items));
                }
                items.push(go(b, pos)?);
            }
        }
        if b[*pos] == b')' {
            return Err("unexpected )".into());
        }
        let start = *pos;
        while *pos < b.len() && !(b[*pos] as char).is_ascii_whitespace() && b[*pos] != b'(' && b[*pos] != b')' {
            *pos += 1;
        }
        Ok(Sx::Atom(String::from_utf8_lossy(&b[start..*pos]).into_owned()))
    }
    let r = go(b, &mut pos)?;
    skip(b, &mut pos);
    if pos < b.len() {
        return Err("trailing input".into());
    }
    Ok(r)
}

fn atom(x: &Sx) -> Result<&str, String> {
    match x {
        Sx::Atom(a) => Ok(a),
        _ => Err("atom expected".into()),
    }
}
fn items(x: &Sx) -> Result<&[Sx], String> {
    match x {
        Sx::List(l) => Ok(l),
        _ => Err("list expected".into()),
    }
}
fn head<'a>(x: &'a Sx) -> Result<(&'a str, &'a [Sx]), String> {
    let l = items(x)?;
    if l.is_empty() {
        return Err("empty list".into());
    }
    Ok((atom(&l[0])?, &l[1..]))
}
fn bytes_str(xs: &[Sx]) -> Result<String, String> {
    let mut v = vec![];
    for x in xs {
        v.push(atom(x)?.parse::<u8>().map_err(|e| e.to_string())?);
    }
    String::from_utf8(v).map_err(|e| e.to_string())
}

fn rd_lit(x: &Sx) -> Result<Lit, String> {
    let (h, r) = head(x)?;
    Ok(match h {
        "int" => Lit::Int(atom(&r[0])?.parse().map_err(|_| "int")?),
        "byte" => Lit::Byte(atom(&r[0])?.parse().map_err(|_| "byte")?),
        "char" => Lit::Char(char::from_u32(atom(&r[0])?.parse().map_err(|_| "char")?).ok_or("char")?),
        "str" => Lit::Str(bytes_str(r)?),
        "f64" => Lit::Float(u64::from_str_radix(atom(&r[0])?, 16).map_err(|_| "f64")?),
        _ => return Err(format!("literal {}", h)),
    })
}

fn rd_ty(x: &Sx) -> Result<Ty, String> {
    if let Sx::Atom(a) = x {
        return Ok(match a.as_str() {
            "int" => Ty::Int,
            "byte" => Ty::Byte,
            "char" => Ty::Char,
            "str" => Ty::Str,
            "float" => Ty::Float,
            "bool" => Ty::Bool,
            "unit" => Ty::Unit,
            _ => return Err(format!("type {}", a)),
        });
    }
    let (h, r) = head(x)?;
    Ok(match h {
        "fun" => Ty::Fun(items(&r[0])?.iter().map(rd_ty).collect::<Result<_, _>>()?, Box::new(rd_ty(&r[1])?)),
        "trcd" => Ty::Record(
            items(&r[0])?
                .iter()
                .map(|f| {
                    let f = items(f)?;
                    Ok((atom(&f[0])?.to_string(), rd_ty(&f[1])?))
                })
                .collect::<Result<_, String>>()?,
        ),
        "ttup" => Ty::Tuple(r.iter().map(rd_ty).collect::<Result<_, _>>()?),
        "named" => Ty::Named(atom(&r[0])?.to_string(), r[1..].iter().map(rd_ty).collect::<Result<_, _>>()?),
        "tarr" => Ty::Array(Box::new(rd_ty(&r[0])?)),
        "tvar" => Ty::Var(atom(&r[0])?.to_string()),
        _ => return Err(format!("type {}", h)),
    })
}

fn rd_pat(x: &Sx) -> Result<Pat, String> {
    let (h, r) = head(x)?;
    Ok(match h {
        "pwild" => Pat::Wild,
        "pvar" => Pat::Var(atom(&r[0])?.to_string()),
        "plit" => Pat::Lit(rd_lit(&r[0])?),
        "pcon" => Pat::Con(atom(&r[0])?.to_string(), r[2..].iter().map(rd_pat).collect::<Result<_, _>>()?),
        "prcd" => Pat::Record(
            items(&r[0])?
                .iter()
                .map(|f| {
                    let f = items(f)?;
                    let l = atom(&f[0])?.to_string();
                    let p = rd_pat(&f[1])?;
                    // `(l (pvar l))` is the expansion of the punned field
                    Ok(if p == Pat::Var(l.clone()) { (l, None) } else { (l, Some(p)) })
                })
                .collect::<Result<_, String>>()?,
        ),
        "ptup" => Pat::Tuple(r.iter().map(rd_pat).collect::<Result<_, _>>()?),
        "pas" => Pat::As(atom(&r[0])?.to_string(), Box::new(rd_pat(&r[1])?)),
        _ => return Err(format!("pattern {}", h)),
    })
}

fn rd_fields(x: &Sx) -> Result<Vec<(Name, Expr)>, String> {
    items(x)?
        .iter()
        .map(|f| {
            let f = items(f)?;
            Ok((atom(&f[0])?.to_string(), rd_expr(&f[1])?))
        })
        .collect()
}

fn rd_op(s: &str) -> Result<PrimOp, String> {
    PrimOp::ALL.iter().copied().find(|o| o.atom() == s).ok_or_else(|| format!("primop {}", s))
}

pub fn rd_expr(x: &Sx) -> Result<Expr, String> {
    let (h, r) = head(x)?;
    let b = |i: usize| -> Result<Box<Expr>, String> { Ok(Box::new(rd_expr(r.get(i).ok_or("missing operand")?)?)) };
    let names = |x: &Sx| -> Result<Vec<Name>, String> { items(x)?.iter().map(|a| Ok(atom(a)?.to_string())).collect() };
    Ok(match h {
        "int" | "byte" | "char" | "str" | "f64" => Expr::Lit(rd_lit(x)?),
        "var" => Expr::Var(atom(&r[0])?.to_string()),
        "lam" => Expr::Lam(names(&r[0])?, b(1)?),
        "app" => Expr::App(b(0)?, r[1..].iter().map(rd_expr).collect::<Result<_, _>>()?),
        "let" => Expr::Let(rd_pat(&r[0])?, b(1)?, b(2)?),
        "rec" => Expr::Rec(
            items(&r[0])?
                .iter()
                .map(|bd| {
                    let bd = items(bd)?;
                    Ok(RecBind { name: atom(&bd[0])?.to_string(), params: names(&bd[1])?, body: rd_expr(&bd[2])? })
                })
                .collect::<Result<_, String>>()?,
            b(1)?,
        ),
        "if" => Expr::If(b(0)?, b(1)?, b(2)?),
        "prim" => Expr::Prim(rd_op(atom(&r[0])?)?, b(1)?, b(2)?),
        "and" => Expr::And(b(0)?, b(1)?),
        "or" => Expr::Or(b(0)?, b(1)?),
        "rcd" => Expr::Record(rd_fields(&r[0])?, None),
        "rcdu" => Expr::Record(rd_fields(&r[0])?, Some(b(1)?)),
        "proj" => Expr::Proj(b(0)?, atom(&r[1])?.to_string()),
        "tup" => Expr::Tuple(r.iter().map(rd_expr).collect::<Result<_, _>>()?),
        "con" => Expr::Con(atom(&r[0])?.to_string(), r[2..].iter().map(rd_expr).collect::<Result<_, _>>()?),
        "arr" => Expr::Array(r.iter().map(rd_expr).collect::<Result<_, _>>()?),
        "aidx" => Expr::ArrayIndex(b(0)?, b(1)?),
        "alen" => Expr::ArrayLen(b(0)?),
        "match" => Expr::Match(
            b(0)?,
            items(&r[1])?
                .iter()
                .map(|a| {
                    let a = items(a)?;
                    Ok((rd_pat(&a[0])?, rd_expr(&a[1])?))
                })
                .collect::<Result<_, String>>()?,
        ),
        "seq" => Expr::Seq(b(0)?, b(1)?),
        "error" => Expr::Error(bytes_str(r)?),
        "eff" => Expr::Eff(b(0)?),
        "ann" => Expr::Ann(b(0)?, rd_ty(&r[1])?),
        _ => return Err(format!("expression {}", h)),
    })
}

/// Reads a line written by [`program_to_sexp`].
pub fn parse_program(line: &str) -> Result<Program, String> {
    let sx = parse_sx(line)?;
    let (h, r) = head(&sx)?;
    if h != "prog" || r.len() != 3 {
        return Err("(prog (types …) expr type) expected".into());
    }
    let (th, decls) = head(&r[0])?;
    if th != "types" {
        return Err("(types …) expected".into());
    }
    let mut types = vec![];
    for d in decls {
        let d = items(d)?;
        let name = atom(&d[0])?.to_string();
        let params = items(&d[1])?.iter().map(|a| Ok(atom(a)?.to_string())).collect::<Result<Vec<_>, String>>()?;
        let mut ctors = vec![];
        for c in items(&d[2])? {
            let c = items(c)?;
            ctors.push((atom(&c[0])?.to_string(), c[2..].iter().map(rd_ty).collect::<Result<Vec<_>, _>>()?));
        }
        types.push(TypeDecl { name, params, ctors });
    }
    Ok(Program { types, expr: rd_expr(&r[1])?, ty: rd_ty(&r[2])? })
}
