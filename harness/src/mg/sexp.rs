//! S-expression rendering of MiniGluon programs for the Coq model drivers (one program per line).
//!
//! ```text
//! program ::= (prog (types decl…) expr type)
//! decl    ::= (T (a…) ((C tag type…)…))
//! expr    ::= (int n) | (byte n) | (char n) | (str b…) | (f64 hhhhhhhhhhhhhhhh)      literals (bytes / code point in decimal)
//!           | (var x) | (lam (x…) e) | (app e e…)
//!           | (let p e e) | (rec ((f (x…) e)…) e)
//!           | (if e e e) | (prim op e e) | (and e e) | (or e e)
//!           | (rcd ((l e)…)) | (rcdu ((l e)…) e)          record, record update `{ l = e, .. base }`
//!           | (proj e l) | (tup e…) | (con C tag e…) | (arr e…) | (aidx e e) | (alen e)
//!           | (match e ((p e)…)) | (seq e e) | (error b…) | (eff e) | (ann e type)
//! op      ::= int_add int_sub int_mul int_div int_eq int_lt byte_add byte_sub byte_mul byte_div byte_eq byte_lt
//! pat     ::= (pwild) | (pvar x) | (plit literal) | (pcon C tag p…) | (prcd ((l p)…)) | (ptup p…) | (pas x p)
//! type    ::= int | byte | char | str | float | bool | unit | (fun (t…) t) | (trcd ((l t)…)) | (ttup t…)
//!           | (named T t…) | (tarr t) | (tvar a)
//! ```
//! Constructor tags are resolved here (index in the declaration; `False` = 0, `True` = 1), a punned
//! record-pattern field `{ l }` is rendered `(l (pvar l))`.  Names are atoms
//! `[A-Za-z_][A-Za-z0-9_']*`; the tuple field names are `_0`, `_1`, ….
use super::ast::*;

fn lit(l: &Lit, out: &mut String) {
    match l {
        Lit::Int(n) => out.push_str(&format!("(int {})", n)),
        Lit::Byte(b) => out.push_str(&format!("(byte {})", b)),
        Lit::Char(c) => out.push_str(&format!("(char {})", *c as u32)),
        Lit::Str(s) => {
            out.push_str("(str");
            for b in s.bytes() {
                out.push_str(&format!(" {}", b));
            }
            out.push(')');
        }
        Lit::Float(bits) => out.push_str(&format!("(f64 {:016x})", bits)),
    }
}

pub fn ty_to_sexp(t: &Ty) -> String {
    let mut s = String::new();
    ty(t, &mut s);
    s
}
fn ty(t: &Ty, out: &mut String) {
    match t {
        Ty::Int => out.push_str("int"),
        Ty::Byte => out.push_str("byte"),
        Ty::Char => out.push_str("char"),
        Ty::Str => out.push_str("str"),
        Ty::Float => out.push_str("float"),
        Ty::Bool => out.push_str("bool"),
        Ty::Unit => out.push_str("unit"),
        Ty::Fun(a, r) => {
            out.push_str("(fun (");
            for (i, x) in a.iter().enumerate() {
                if i > 0 {
                    out.push(' ');
                }
                ty(x, out);
            }
            out.push_str(") ");
            ty(r, out);
            out.push(')');
        }
        Ty::Record(fs) => {
            out.push_str("(trcd (");
            for (i, (l, x)) in fs.iter().enumerate() {
                if i > 0 {
                    out.push(' ');
                }
                out.push_str(&format!("({} ", l));
                ty(x, out);
                out.push(')');
            }
            out.push_str("))");
        }
        Ty::Tuple(ts) => {
            out.push_str("(ttup");
            for x in ts {
                out.push(' ');
                ty(x, out);
            }
            out.push(')');
        }
        Ty::Named(n, ts) => {
            out.push_str(&format!("(named {}", n));
            for x in ts {
                out.push(' ');
                ty(x, out);
            }
            out.push(')');
        }
        Ty::Array(x) => {
            out.push_str("(tarr ");
            ty(x, out);
            out.push(')');
        }
        Ty::Var(v) => out.push_str(&format!("(tvar {})", v)),
    }
}

fn tag_of(types: &[TypeDecl], c: &str) -> usize {
    find_ctor(types, c).map(|(_, i)| i).unwrap_or(usize::MAX)
}

fn pat(types: &[TypeDecl], p: &Pat, out: &mut String) {
    match p {
        Pat::Wild => out.push_str("(pwild)"),
        Pat::Var(x) => out.push_str(&format!("(pvar {})", x)),
        Pat::Lit(l) => {
            out.push_str("(plit ");
            lit(l, out);
            out.push(')');
        }
        Pat::Con(c, ps) => {
            out.push_str(&format!("(pcon {} {}", c, tag_of(types, c)));
            for p in ps {
                out.push(' ');
                pat(types, p, out);
            }
            out.push(')');
        }
        Pat::Record(fs) => {
            out.push_str("(prcd (");
            for (i, (l, p)) in fs.iter().enumerate() {
                if i > 0 {
                    out.push(' ');
                }
                out.push_str(&format!("({} ", l));
                match p {
                    None => out.push_str(&format!("(pvar {})", l)),
                    Some(p) => pat(types, p, out),
                }
                out.push(')');
            }
            out.push_str("))");
        }
        Pat::Tuple(ps) => {
            out.push_str("(ptup");
            for p in ps {
                out.push(' ');
                pat(types, p, out);
            }
            out.push(')');
        }
        Pat::As(x, p) => {
            out.push_str(&format!("(pas {} ", x));
            pat(types, p, out);
            out.push(')');
        }
    }
}

fn list(types: &[TypeDecl], head: &str, es: &[&Expr], out: &mut String) {
    out.push('(');
    out.push_str(head);
    for e in es {
        out.push(' ');
        expr(types, e, out);
    }
    out.push(')');
}

fn expr(types: &[TypeDecl], e: &Expr, out: &mut String) {
    match e {
        Expr::Lit(l) => lit(l, out),
        Expr::Var(x) => out.push_str(&format!("(var {})", x)),
        Expr::Lam(ps, b) => {
            out.push_str(&format!("(lam ({}) ", ps.join(" ")));
            expr(types, b, out);
            out.push(')');
        }
        Expr::App(f, args) => {
            let mut v: Vec<&Expr> = vec![f];
            v.extend(args.iter());
            list(types, "app", &v, out)
        }
        Expr::Let(p, a, b) => {
            out.push_str("(let ");
            pat(types, p, out);
            out.push(' ');
            expr(types, a, out);
            out.push(' ');
            expr(types, b, out);
            out.push(')');
        }
        Expr::Rec(bs, b) => {
            out.push_str("(rec (");
            for (i, r) in bs.iter().enumerate() {
                if i > 0 {
                    out.push(' ');
                }
                out.push_str(&format!("({} ({}) ", r.name, r.params.join(" ")));
                expr(types, &r.body, out);
                out.push(')');
            }
            out.push_str(") ");
            expr(types, b, out);
            out.push(')');
        }
        Expr::If(a, b, c) => list(types, "if", &[a, b, c], out),
        Expr::Prim(op, a, b) => list(types, &format!("prim {}", op.atom()), &[a, b], out),
        Expr::And(a, b) => list(types, "and", &[a, b], out),
        Expr::Or(a, b) => list(types, "or", &[a, b], out),
        Expr::Record(fs, base) => {
            out.push_str(if base.is_some() { "(rcdu (" } else { "(rcd (" });
            for (i, (l, e)) in fs.iter().enumerate() {
                if i > 0 {
                    out.push(' ');
                }
                out.push_str(&format!("({} ", l));
                expr(types, e, out);
                out.push(')');
            }
            out.push(')');
            if let Some(b) = base {
                out.push(' ');
                expr(types, b, out);
            }
            out.push(')');
        }
        Expr::Proj(e, l) => {
            out.push_str("(proj ");
            expr(types, e, out);
            out.push_str(&format!(" {})", l));
        }
        Expr::Tuple(es) => list(types, "tup", &es.iter().collect::<Vec<_>>(), out),
        Expr::Con(c, es) => list(types, &format!("con {} {}", c, tag_of(types, c)), &es.iter().collect::<Vec<_>>(), out),
        Expr::Array(es) => list(types, "arr", &es.iter().collect::<Vec<_>>(), out),
        Expr::ArrayIndex(a, i) => list(types, "aidx", &[a, i], out),
        Expr::ArrayLen(a) => list(types, "alen", &[a], out),
        Expr::Match(s, alts) => {
            out.push_str("(match ");
            expr(types, s, out);
            out.push_str(" (");
            for (i, (p, e)) in alts.iter().enumerate() {
                if i > 0 {
                    out.push(' ');
                }
                out.push('(');
                pat(types, p, out);
                out.push(' ');
                expr(types, e, out);
                out.push(')');
            }
            out.push_str("))");
        }
        Expr::Seq(a, b) => list(types, "seq", &[a, b], out),
        Expr::Error(m) => {
            out.push_str("(error");
            for b in m.bytes() {
                out.push_str(&format!(" {}", b));
            }
            out.push(')');
        }
        Expr::Eff(e) => list(types, "eff", &[e], out),
        Expr::Ann(e, t) => {
            out.push_str("(ann ");
            expr(types, e, out);
            out.push(' ');
            ty(t, out);
            out.push(')');
        }
    }
}

pub fn expr_to_sexp(types: &[TypeDecl], e: &Expr) -> String {
    let mut s = String::new();
    expr(types, e, &mut s);
    s
}

pub fn types_to_sexp(types: &[TypeDecl]) -> String {
    let mut out = String::from("(types");
    for d in types {
        out.push_str(&format!(" ({} ({}) (", d.name, d.params.join(" ")));
        for (i, (c, ts)) in d.ctors.iter().enumerate() {
            if i > 0 {
                out.push(' ');
            }
            out.push_str(&format!("({} {}", c, i));
            for t in ts {
                out.push(' ');
                ty(t, &mut out);
            }
            out.push(')');
        }
        out.push_str("))");
    }
    out.push(')');
    out
}

/// One line: `(prog (types …) <expr> <type>)`.
pub fn program_to_sexp(p: &Program) -> String {
    format!("(prog {} {} {})", types_to_sexp(&p.types), expr_to_sexp(&p.types, &p.expr), ty_to_sexp(&p.ty))
}
