//! MiniGluon: the fragment of Gluon shared by the program-level properties (C01, C02, C04, C05,
//! C07, C12, C16): AST, type-directed generator, Gluon printer, s-expression rendering for the
//! Coq model, and the reader of implementation values into canonical form.
//! Owned by the C01 builder; other properties only use it.
