//! MiniGluon: the fragment of Gluon shared by the program-level properties (C01, C02, C04, C05,
//! C07, C12, C16): AST, type-directed generator, Gluon printer, s-expression rendering for the
//! Coq model, and the reader of implementation values into canonical form.
//! Owned by the C01 builder; other properties only use it.  See `README.md` in this directory.
//!
//! ```no_run
//! use gvh::mg::{self, ast::Program, generate::GenConfig, print::Style};
//! let mut rng = gvh::rng::Rng::new(1);
//! let vm = mg::run::new_vm();                          // prelude off, `mg.prim.eff` registered
//! let p: Program = mg::generate::gen_program(&mut rng, &GenConfig::default());
//! let src = mg::print::to_gluon(&p, &Style::layout()); // Gluon source text
//! let line = mg::sexp::program_to_sexp(&p);            // one line for the Coq model driver
//! let out = mg::run::run_program(&vm, &p, &src);       // Outcome::Val(value, log) | Outcome::Err(kind, log)
//! println!("{}", out.canonical());                     // (val (int 3) (log 1 2)) | (err arith (log))
//! ```
//!
//! Modules: [`ast`] (Expr, Pat, Lit, Ty, TypeDecl, Program), [`generate`] (random generator,
//! exhaustive enumerator, shrink candidates), [`print`] (`to_gluon`, `Style`), [`sexp`]
//! (`program_to_sexp`), [`run`] (`new_vm`, `run`, `run_program`, `Outcome`, `ErrKind`),
//! [`value`] (`canon`, `canon_typed`).
pub mod ast;
pub mod bytecode;
pub mod generate;
pub mod print;
pub mod run;
pub mod sexp;
pub mod value;
