//! Canonical rendering of implementation values (walked through `vm::api::ValueRef`).
//!
//! Canonical value grammar (the Coq model driver `coq/extract/c01/driver.ml` prints the same):
//!
//! ```text
//! v ::= (int n)            Int and Char (a Char is its code point; the VM stores both as Int)
//!     | (byte n)
//!     | (f64 hhhhhhhhhhhhhhhh)   bit pattern, 16 lower-case hex digits
//!     | (str b1 b2 …)      UTF-8 bytes in decimal
//!     | (data tag v…)      variant value; `(data tag)` for a constructor without fields
//!                          (`False` = `(data 0)`, `True` = `(data 1)`)
//!     | (rcd (l v)…)       record, fields in the record type's order; tuples are records with
//!                          fields `_0 _1 …`; unit is `(rcd)`
//!     | (arr v…)
//!     | (fun)              closure, partial application or extern function
//! ```
//!
//! `ValueRef` does not expose the order of a record's field names (only an unordered key set,
//! `Data::field_names`), so names can only be attached with the help of the static type:
//! [`canon_typed`] does that (positions from the VM, names from the type).  The untyped
//! [`canon`] renders a record positionally as `(data 0 v…)` and unit as `(data 0)`.
use super::ast::{find_ctor, Ty, TypeDecl};
use gluon::vm::api::ValueRef;
use gluon::vm::Variants;

/// `104 105` for "hi" (no parentheses); empty for the empty string
pub fn bytes(b: &[u8]) -> String {
    b.iter().map(|x| x.to_string()).collect::<Vec<_>>().join(" ")
}

fn str_value(s: &str) -> String {
    if s.is_empty() { "(str)".to_string() } else { format!("(str {})", bytes(s.as_bytes())) }
}

/// Untyped canonical rendering.
pub fn canon(thread: &gluon::Thread, v: Variants<'_>) -> String {
    let mut out = String::new();
    canon_ref(thread, v.as_ref(), &mut out, 0);
    out
}

const MAX_DEPTH: u32 = 200;

fn canon_ref(thread: &gluon::Thread, v: ValueRef<'_>, out: &mut String, depth: u32) {
    if depth > MAX_DEPTH {
        out.push_str("(deep)");
        return;
    }
    match v {
        ValueRef::Int(i) => out.push_str(&format!("(int {})", i)),
        ValueRef::Byte(b) => out.push_str(&format!("(byte {})", b)),
        ValueRef::Float(f) => out.push_str(&format!("(f64 {:016x})", f.to_bits())),
        ValueRef::String(s) => out.push_str(&str_value(s)),
        ValueRef::Data(d) => {
            out.push_str(&format!("(data {}", d.tag()));
            for i in 0..d.len() {
                out.push(' ');
                canon_ref(thread, d.get(i).unwrap(), out, depth + 1);
            }
            out.push(')');
        }
        ValueRef::Array(a) => {
            out.push_str("(arr");
            for x in a.iter() {
                out.push(' ');
                canon_ref(thread, x.as_ref(), out, depth + 1);
            }
            out.push(')');
        }
        ValueRef::Closure(_) | ValueRef::Internal => out.push_str("(fun)"),
        ValueRef::Userdata(_) => out.push_str("(userdata)"),
        ValueRef::Thread(_) => out.push_str("(thread)"),
    }
}

/// Canonical rendering directed by the static type `ty` (declared variant types in `types`).
/// A value whose shape does not fit the type is rendered `(shape-mismatch <untyped>)`.
pub fn canon_typed(thread: &gluon::Thread, v: Variants<'_>, ty: &Ty, types: &[TypeDecl]) -> String {
    let mut out = String::new();
    typed(thread, v.as_ref(), ty, types, &mut out, 0);
    out
}

fn mismatch(thread: &gluon::Thread, v: ValueRef<'_>, out: &mut String) {
    out.push_str("(shape-mismatch ");
    canon_ref(thread, v, out, 0);
    out.push(')');
}

fn typed(thread: &gluon::Thread, v: ValueRef<'_>, ty: &Ty, types: &[TypeDecl], out: &mut String, depth: u32) {
    if depth > MAX_DEPTH {
        out.push_str("(deep)");
        return;
    }
    match (ty, v.clone()) {
        (Ty::Int, ValueRef::Int(i)) | (Ty::Char, ValueRef::Int(i)) => out.push_str(&format!("(int {})", i)),
        (Ty::Byte, ValueRef::Byte(b)) => out.push_str(&format!("(byte {})", b)),
        (Ty::Float, ValueRef::Float(f)) => out.push_str(&format!("(f64 {:016x})", f.to_bits())),
        (Ty::Str, ValueRef::String(s)) => out.push_str(&str_value(s)),
        (Ty::Fun(..), ValueRef::Closure(_)) | (Ty::Fun(..), ValueRef::Internal) => out.push_str("(fun)"),
        (Ty::Var(_), v) => canon_ref(thread, v, out, depth),
        (Ty::Array(t), ValueRef::Array(a)) => {
            out.push_str("(arr");
            for x in a.iter() {
                out.push(' ');
                typed(thread, x.as_ref(), t, types, out, depth + 1);
            }
            out.push(')');
        }
        (Ty::Unit, ValueRef::Data(d)) if d.len() == 0 && d.tag() == 0 => out.push_str("(rcd)"),
        (Ty::Record(fs), ValueRef::Data(d)) if d.len() == fs.len() && d.tag() == 0 => {
            out.push_str("(rcd");
            for (i, (l, t)) in fs.iter().enumerate() {
                out.push_str(&format!(" ({} ", l));
                typed(thread, d.get(i).unwrap(), t, types, out, depth + 1);
                out.push(')');
            }
            out.push(')');
        }
        (Ty::Tuple(ts), ValueRef::Data(d)) if d.len() == ts.len() && d.tag() == 0 => {
            out.push_str("(rcd");
            for (i, t) in ts.iter().enumerate() {
                out.push_str(&format!(" (_{} ", i));
                typed(thread, d.get(i).unwrap(), t, types, out, depth + 1);
                out.push(')');
            }
            out.push(')');
        }
        (Ty::Bool, ValueRef::Data(d)) if d.len() == 0 && d.tag() <= 1 => out.push_str(&format!("(data {})", d.tag())),
        (Ty::Named(n, args), ValueRef::Data(d)) => {
            let v = ValueRef::Data(d.clone());
            let decl = types.iter().find(|t| &t.name == n);
            let ok = decl.and_then(|decl| decl.ctors.get(d.tag() as usize).map(|c| (decl, c)));
            match ok {
                Some((decl, (_, field_tys))) if field_tys.len() == d.len() => {
                    let s: Vec<_> = decl.params.iter().cloned().zip(args.iter().cloned()).collect();
                    out.push_str(&format!("(data {}", d.tag()));
                    for (i, t) in field_tys.iter().enumerate() {
                        out.push(' ');
                        typed(thread, d.get(i).unwrap(), &t.subst(&s), types, out, depth + 1);
                    }
                    out.push(')');
                }
                _ => mismatch(thread, v, out),
            }
        }
        (_, v) => mismatch(thread, v, out),
    }
}

/// Does constructor `c` exist (helper for consumers that print constructor tables)?
pub fn ctor_tag(types: &[TypeDecl], c: &str) -> Option<usize> {
    find_ctor(types, c).map(|(_, i)| i)
}
