//! MiniGluon → Gluon concrete syntax (implicit prelude OFF: primitives are `#Int+` …).
//!
//! The printer is a small box pretty-printer: every expression renders to a block of lines
//! whose continuation lines never start left of the block's first column, so the offside rule
//! of `parser/src/layout.rs` is respected wherever the block is embedded.
//!
//! Program layout:
//! ```text
//! let { Bool } = import! std.types        -- only when True/False/if/&&/|| or comparisons occur
//! let { error } = import! std.prim        -- only when `error` occurs
//! let { eff } = import! mg.prim           -- only when `eff` occurs (extern module of mg::run)
//! let array = import! std.array.prim      -- only when array.index / array.len occur
//! let flat_map f m = f m                  -- only with `Style::seq_do` and a `Seq`
//! type T a = | A Int | B a                -- declared variants
//! <expression>
//! ```
//!
//! Styles: [`Style::explicit`] writes `let p = e in`, `rec … in`, and keeps sub-blocks on the
//! line where they start (`let x = match …`); [`Style::layout`] never writes `in`, relies on
//! line breaks and indentation, and puts block-like right-hand sides on their own indented
//! lines.  `fun_sugar` prints `let f = \x -> e` as `let f x = e` when `f` does not occur in `e`
//! (a `let` with parameters is self-recursive in Gluon: `base/src/ast.rs` `is_recursive`).
use super::ast::*;

#[derive(Clone, Debug, PartialEq, Eq)]
pub struct Style {
    /// false: explicit `in`; true: layout based (no `in`)
    pub layout: bool,
    /// print `let f = \x -> e` as `let f x = e` when that does not change scoping
    pub fun_sugar: bool,
    /// print `Seq(a, b)` as `do _ = a` over the identity `flat_map` instead of `let _ = a`
    pub seq_do: bool,
    /// emit all four import lines even when unused
    pub always_header: bool,
}

impl Style {
    pub fn explicit() -> Style {
        Style { layout: false, fun_sugar: false, seq_do: false, always_header: false }
    }
    pub fn layout() -> Style {
        Style { layout: true, fun_sugar: true, seq_do: false, always_header: false }
    }
    /// the styles exercised by the correspondence checks
    pub fn all() -> Vec<Style> {
        vec![Style::explicit(), Style::layout()]
    }
    pub fn name(&self) -> &'static str {
        if self.layout { "layout" } else { "explicit" }
    }
}

// ------------------------------------------------------------------ boxes
type Bx = Vec<String>;

fn line(s: impl Into<String>) -> Bx {
    vec![s.into()]
}
fn width(s: &str) -> usize {
    // gluon's layout algorithm measures columns in bytes (base/src/source.rs), so must we
    s.len()
}
/// horizontal composition: `b` starts where the last line of `a` ends
fn hcat(mut a: Bx, b: Bx) -> Bx {
    let w = width(a.last().unwrap());
    let pad = " ".repeat(w);
    let mut it = b.into_iter();
    if let Some(first) = it.next() {
        a.last_mut().unwrap().push_str(&first);
    }
    for l in it {
        a.push(format!("{}{}", pad, l));
    }
    a
}
fn hs(a: Bx, s: &str) -> Bx {
    hcat(a, line(s))
}
fn sh(s: &str, b: Bx) -> Bx {
    hcat(line(s), b)
}
fn vcat(mut a: Bx, b: Bx) -> Bx {
    a.extend(b);
    a
}
fn indent(n: usize, b: Bx) -> Bx {
    let pad = " ".repeat(n);
    b.into_iter().map(|l| format!("{}{}", pad, l)).collect()
}
fn single(b: &Bx) -> bool {
    b.len() == 1
}

// ------------------------------------------------------------------ literals, types, patterns
pub fn lit_to_gluon(l: &Lit) -> String {
    match l {
        Lit::Int(n) => n.to_string(),
        Lit::Byte(b) => format!("{}b", b),
        Lit::Char(c) => match c {
            '\'' => "'\\''".to_string(),
            '\\' => "'\\\\'".to_string(),
            '\n' => "'\\n'".to_string(),
            '\t' => "'\\t'".to_string(),
            '\r' => "'\\r'".to_string(),
            c => format!("'{}'", c),
        },
        Lit::Str(s) => {
            let mut o = String::from("\"");
            for c in s.chars() {
                match c {
                    '"' => o.push_str("\\\""),
                    '\\' => o.push_str("\\\\"),
                    '\n' => o.push_str("\\n"),
                    '\t' => o.push_str("\\t"),
                    '\r' => o.push_str("\\r"),
                    c => o.push(c),
                }
            }
            o.push('"');
            o
        }
        Lit::Float(bits) => {
            let f = f64::from_bits(*bits);
            let s = format!("{:?}", f);
            if s.contains('.') { s } else { format!("{}.0", s) }
        }
    }
}

fn lit_negative(l: &Lit) -> bool {
    match l {
        Lit::Int(n) => *n < 0,
        Lit::Float(b) => f64::from_bits(*b).is_sign_negative(),
        _ => false,
    }
}

pub fn ty_to_gluon(t: &Ty) -> String {
    ty(t, 0)
}
// level 0: anything; 1: left of an arrow (no bare arrow); 2: type argument (atomic)
fn ty(t: &Ty, lvl: u8) -> String {
    let s = match t {
        Ty::Int => return "Int".into(),
        Ty::Byte => return "Byte".into(),
        Ty::Char => return "Char".into(),
        Ty::Str => return "String".into(),
        Ty::Float => return "Float".into(),
        Ty::Bool => return "Bool".into(),
        Ty::Unit => return "()".into(),
        Ty::Var(v) => return v.clone(),
        Ty::Record(fs) => {
            if fs.is_empty() {
                return "{}".into();
            }
            return format!("{{ {} }}", fs.iter().map(|(n, t)| format!("{} : {}", n, ty(t, 0))).collect::<Vec<_>>().join(", "));
        }
        Ty::Tuple(ts) => return format!("({})", ts.iter().map(|t| ty(t, 0)).collect::<Vec<_>>().join(", ")),
        Ty::Fun(args, r) => {
            let mut s = String::new();
            for a in args {
                s.push_str(&ty(a, 1));
                s.push_str(" -> ");
            }
            s.push_str(&ty(r, 0));
            if lvl >= 1 {
                return format!("({})", s);
            }
            return s;
        }
        Ty::Named(n, args) => {
            if args.is_empty() {
                return n.clone();
            }
            format!("{} {}", n, args.iter().map(|t| ty(t, 2)).collect::<Vec<_>>().join(" "))
        }
        Ty::Array(t) => format!("Array {}", ty(t, 2)),
    };
    if lvl >= 2 { format!("({})", s) } else { s }
}

pub fn type_decl_to_gluon(d: &TypeDecl) -> String {
    let mut s = format!("type {}", d.name);
    for p in &d.params {
        s.push(' ');
        s.push_str(p);
    }
    s.push_str(" =");
    for (c, args) in &d.ctors {
        s.push_str(" | ");
        s.push_str(c);
        for a in args {
            s.push(' ');
            s.push_str(&ty(a, 2));
        }
    }
    s
}

pub fn pat_to_gluon(p: &Pat) -> String {
    pat(p, false)
}
fn pat(p: &Pat, atomic: bool) -> String {
    match p {
        Pat::Wild => "_".into(),
        Pat::Var(x) => x.clone(),
        Pat::Lit(l) => {
            if atomic && lit_negative(l) { format!("({})", lit_to_gluon(l)) } else { lit_to_gluon(l) }
        }
        Pat::Con(c, ps) => {
            if ps.is_empty() {
                c.clone()
            } else {
                let s = format!("{} {}", c, ps.iter().map(|p| pat(p, true)).collect::<Vec<_>>().join(" "));
                if atomic { format!("({})", s) } else { s }
            }
        }
        Pat::Record(fs) => {
            if fs.is_empty() {
                return "{}".into();
            }
            let inner: Vec<String> = fs
                .iter()
                .map(|(l, p)| match p {
                    None => l.clone(),
                    Some(p) => format!("{} = {}", l, pat(p, false)),
                })
                .collect();
            format!("{{ {} }}", inner.join(", "))
        }
        Pat::Tuple(ps) => format!("({})", ps.iter().map(|p| pat(p, false)).collect::<Vec<_>>().join(", ")),
        Pat::As(x, p) => format!("{}@{}", x, pat(p, true)),
    }
}

// ------------------------------------------------------------------ expressions
#[derive(Clone, Copy, PartialEq, Eq, PartialOrd, Ord)]
enum Lvl {
    Block = 0, // anything
    Infix = 1, // infix chain, application, atom
    Op = 2,    // application, atom (operand of an infix operator)
    Arg = 3,   // atom
}

fn class(e: &Expr) -> Lvl {
    match e {
        Expr::Lit(l) => {
            if lit_negative(l) { Lvl::Block } else { Lvl::Arg }
        }
        Expr::Var(_) | Expr::Record(..) | Expr::Tuple(_) | Expr::Array(_) | Expr::Proj(..) => Lvl::Arg,
        Expr::Con(_, args) => {
            if args.is_empty() { Lvl::Arg } else { Lvl::Op }
        }
        Expr::App(..) | Expr::Error(_) | Expr::Eff(_) | Expr::ArrayIndex(..) | Expr::ArrayLen(_) => Lvl::Op,
        Expr::Prim(..) | Expr::And(..) | Expr::Or(..) => Lvl::Infix,
        Expr::Lam(..) | Expr::Let(..) | Expr::Rec(..) | Expr::If(..) | Expr::Match(..) | Expr::Seq(..) | Expr::Ann(..) => Lvl::Block,
    }
}

fn free_in(x: &str, e: &Expr) -> bool {
    // conservative: any occurrence of the name as a variable anywhere (ignores shadowing)
    let mut found = false;
    e.visit(&mut |e| {
        if let Expr::Var(y) = e {
            if y == x {
                found = true
            }
        }
    });
    found
}

struct P<'a> {
    st: &'a Style,
}

impl<'a> P<'a> {
    /// expression at the given level; parenthesised when its class is lower
    fn ex(&self, e: &Expr, lvl: Lvl) -> Bx {
        self.exb(e, lvl, false)
    }

    /// `blk`: the expression starts a layout block (top level, right of `=`, `->`, `then`, `else`)
    /// where implicit `in` / separators are available; false directly inside parentheses,
    /// brackets, braces or as an operand.
    fn exb(&self, e: &Expr, lvl: Lvl, blk: bool) -> Bx {
        if class(e) < lvl {
            hs(sh("(", self.raw(e, false)), ")")
        } else {
            self.raw(e, blk)
        }
    }

    fn sep_list(&self, open: &str, close: &str, items: Vec<Bx>) -> Bx {
        let mut b = line(open);
        let n = items.len();
        for (i, it) in items.into_iter().enumerate() {
            b = hcat(b, it);
            if i + 1 < n {
                b = hs(b, ", ");
            }
        }
        hs(b, close)
    }

    fn app(&self, head: Bx, args: &[Expr]) -> Bx {
        let mut b = head;
        for a in args {
            b = hcat(hs(b, " "), self.ex(a, Lvl::Arg));
        }
        b
    }

    /// `head rhs` on one line when `rhs` is a single line or the style keeps blocks inline;
    /// otherwise `head` and the indented `rhs` below it
    fn hang(&self, head: Bx, rhs_e: &Expr) -> Bx {
        // explicit style relies on `in` only: nothing below the top-level spine is treated as a
        // layout block
        let rhs = self.exb(rhs_e, Lvl::Block, self.st.layout);
        if single(&rhs) || !self.st.layout {
            hcat(hs(head, " "), rhs)
        } else {
            vcat(head, indent(4, rhs))
        }
    }

    fn let_head(&self, p: &Pat, e: &Expr) -> Bx {
        // `let f x y =` sugar
        if let (Pat::Var(f), Expr::Lam(params, body)) = (p, e) {
            if self.st.fun_sugar && !free_in(f, body) {
                return self.hang(line(format!("let {} {} =", f, params.join(" "))), body);
            }
        }
        self.hang(line(format!("let {} =", pat(p, true))), e)
    }

    fn with_in(&self, binding: Bx, body: &Expr, blk: bool) -> Bx {
        let body = self.exb(body, Lvl::Block, blk);
        if self.st.layout && blk {
            vcat(binding, body)
        } else if !blk {
            // not in a block context: keep `in body` on the line of the `in`
            hcat(hs(binding, " in "), body)
        } else if single(&binding) {
            vcat(hs(binding, " in"), body)
        } else {
            vcat(vcat(binding, line("in")), body)
        }
    }

    fn raw(&self, e: &Expr, blk: bool) -> Bx {
        match e {
            Expr::Lit(l) => line(lit_to_gluon(l)),
            Expr::Var(x) => line(x.clone()),
            Expr::Lam(params, body) => self.hang(line(format!("\\{} ->", params.join(" "))), body),
            Expr::App(f, args) => self.app(self.ex(f, Lvl::Arg), args),
            Expr::Let(p, e1, e2) => self.with_in(self.let_head(p, e1), e2, blk),
            Expr::Rec(binds, body) => {
                let mut b: Bx = vec![];
                for r in binds {
                    b = vcat(b, self.hang(line(format!("let {} {} =", r.name, r.params.join(" "))), &r.body));
                }
                if binds.len() == 1 && self.st.fun_sugar {
                    // a single `let f x = …` is already self-recursive
                    self.with_in(b, body, blk)
                } else {
                    // a following `let` would join the group: always close it with `in`;
                    // the `let`s of the group must be aligned with the first one
                    let b = sh("rec ", b);
                    let body = self.exb(body, Lvl::Block, blk);
                    if blk { vcat(vcat(b, line("in")), body) } else { hcat(hs(b, " in "), body) }
                }
            }
            Expr::If(c, t, f) => {
                let cb = self.ex(c, Lvl::Infix);
                let tb = self.exb(t, if self.st.layout { Lvl::Block } else { Lvl::Infix }, self.st.layout);
                let fb = self.exb(f, Lvl::Block, self.st.layout);
                if single(&cb) && single(&tb) && single(&fb) && !self.st.layout {
                    line(format!("if {} then {} else {}", cb[0], tb[0], fb[0]))
                } else {
                    let head = hs(sh("if ", cb), " then");
                    vcat(vcat(vcat(head, indent(4, tb)), line("else")), indent(4, fb))
                }
            }
            Expr::Prim(op, a, b) => {
                let l = self.ex(a, Lvl::Op);
                let r = self.ex(b, Lvl::Op);
                hcat(hs(l, &format!(" {} ", op.gluon())), r)
            }
            Expr::And(a, b) => hcat(hs(self.ex(a, Lvl::Op), " && "), self.ex(b, Lvl::Op)),
            Expr::Or(a, b) => hcat(hs(self.ex(a, Lvl::Op), " || "), self.ex(b, Lvl::Op)),
            Expr::Record(fs, base) => {
                if fs.is_empty() && base.is_none() {
                    return line("{}");
                }
                let mut items: Vec<Bx> = fs.iter().map(|(l, e)| sh(&format!("{} = ", l), self.ex(e, Lvl::Infix))).collect();
                if let Some(b) = base {
                    items.push(sh(".. ", self.ex(b, Lvl::Arg)));
                }
                self.sep_list("{ ", " }", items)
            }
            Expr::Proj(e, l) => hs(self.ex(e, Lvl::Arg), &format!(".{}", l)),
            Expr::Tuple(es) => self.sep_list("(", ")", es.iter().map(|e| self.ex(e, Lvl::Infix)).collect()),
            Expr::Con(c, args) => self.app(line(c.clone()), args),
            Expr::Array(es) => self.sep_list("[", "]", es.iter().map(|e| self.ex(e, Lvl::Infix)).collect()),
            Expr::ArrayIndex(a, i) => self.app(line("array.index"), &[(**a).clone(), (**i).clone()]),
            Expr::ArrayLen(a) => self.app(line("array.len"), &[(**a).clone()]),
            Expr::Match(s, alts) => {
                let mut b = hs(sh("match ", self.ex(s, Lvl::Infix)), " with");
                for (p, e) in alts {
                    // the body of an alternative is followed by the next `|`: keep block-like
                    // bodies parenthesised unless they sit on their own indented lines
                    let head = line(format!("| {} ->", pat(p, false)));
                    let alt = if self.st.layout {
                        self.hang(head, e)
                    } else {
                        hcat(hs(head, " "), self.exb(e, Lvl::Infix, false))
                    };
                    b = vcat(b, alt);
                }
                b
            }
            Expr::Seq(a, b) => {
                let head = if self.st.seq_do { "do _ =" } else { "let _ =" };
                self.with_in(self.hang(line(head), a), b, blk)
            }
            Expr::Error(m) => line(format!("error {}", lit_to_gluon(&Lit::Str(m.clone())))),
            Expr::Eff(e) => self.app(line("eff"), &[(**e).clone()]),
            Expr::Ann(e, t) => {
                let b = self.hang(line(format!("let ann_ : {} =", ty(t, 0))), e);
                self.with_in(b, &Expr::Var("ann_".into()), blk)
            }
        }
    }
}

/// which header lines a program needs
#[derive(Default, Clone, Debug)]
pub struct Needs {
    pub bool_: bool,
    pub error: bool,
    pub eff: bool,
    pub array: bool,
    pub seq: bool,
}

pub fn needs(e: &Expr) -> Needs {
    let mut n = Needs::default();
    e.visit(&mut |e| match e {
        Expr::Con(c, _) if c == "True" || c == "False" => n.bool_ = true,
        Expr::If(..) | Expr::And(..) | Expr::Or(..) => n.bool_ = true,
        Expr::Prim(op, ..) if op.is_cmp() => n.bool_ = true,
        Expr::Match(_, alts) => {
            for (p, _) in alts {
                if pat_mentions_bool(p) {
                    n.bool_ = true
                }
            }
        }
        Expr::Let(p, ..) if pat_mentions_bool(p) => n.bool_ = true,
        Expr::Error(_) => n.error = true,
        Expr::Eff(_) => n.eff = true,
        Expr::ArrayIndex(..) | Expr::ArrayLen(_) => n.array = true,
        Expr::Seq(..) => n.seq = true,
        Expr::Ann(_, t) if ty_mentions_bool(t) => n.bool_ = true,
        _ => {}
    });
    n
}

fn pat_mentions_bool(p: &Pat) -> bool {
    match p {
        Pat::Con(c, ps) => c == "True" || c == "False" || ps.iter().any(pat_mentions_bool),
        Pat::Tuple(ps) => ps.iter().any(pat_mentions_bool),
        Pat::Record(fs) => fs.iter().any(|(_, p)| p.as_ref().map_or(false, pat_mentions_bool)),
        Pat::As(_, p) => pat_mentions_bool(p),
        _ => false,
    }
}
fn ty_mentions_bool(t: &Ty) -> bool {
    match t {
        Ty::Bool => true,
        Ty::Fun(a, r) => a.iter().any(ty_mentions_bool) || ty_mentions_bool(r),
        Ty::Record(fs) => fs.iter().any(|(_, t)| ty_mentions_bool(t)),
        Ty::Tuple(ts) | Ty::Named(_, ts) => ts.iter().any(ty_mentions_bool),
        Ty::Array(t) => ty_mentions_bool(t),
        _ => false,
    }
}

/// The header (imports and type declarations) as lines, in the given style.
pub fn header(p: &Program, st: &Style) -> Vec<String> {
    let mut n = needs(&p.expr);
    if p.types.iter().any(|d| d.ctors.iter().any(|(_, ts)| ts.iter().any(ty_mentions_bool))) {
        n.bool_ = true;
    }
    if st.always_header {
        n.bool_ = true;
        n.error = true;
        n.eff = true;
        n.array = true;
    }
    let tail = if st.layout { "" } else { " in" };
    let mut out = vec![];
    if n.bool_ {
        out.push(format!("let {{ Bool }} = import! std.types{}", tail));
    }
    if n.error {
        out.push(format!("let {{ error }} = import! std.prim{}", tail));
    }
    if n.eff {
        out.push(format!("let {{ eff }} = import! mg.prim{}", tail));
    }
    if n.array {
        out.push(format!("let array = import! std.array.prim{}", tail));
    }
    if n.seq && st.seq_do {
        out.push(format!("let flat_map f m = f m{}", tail));
    }
    for d in &p.types {
        out.push(format!("{}{}", type_decl_to_gluon(d), tail));
    }
    out
}

/// The expression alone (no header), as a block of lines.
pub fn expr_to_gluon(e: &Expr, st: &Style) -> String {
    P { st }.exb(e, Lvl::Block, true).join("\n")
}

/// The complete program text accepted by `ThreadExt::run_expr` on a VM built by `mg::run::new_vm`.
pub fn to_gluon(p: &Program, st: &Style) -> String {
    let mut lines = header(p, st);
    lines.extend(P { st }.exb(&p.expr, Lvl::Block, true));
    let mut s = lines.join("\n");
    s.push('\n');
    s
}
