//! Export of the REAL bytecode gluon compiles for a MiniGluon program, for the model VM
//! (`coq/theories/VM/Machine.v`, driver `coq/extract/c01vm`).
//!
//! One line per module:
//! ```text
//! (module (globals (NAME FIELD…)…) FN)
//! FN    ::= (fn ARGS (INSTR…) (strings (b…)…) (records (NAME…)…) (inner FN…))
//! INSTR ::= (pi n) PushInt | (pb n) PushByte | (pf hex16) PushFloat | (ps i) PushString | (pu i) PushUpVar
//!         | (p i) Push | (call n) | (tcall n) | (cv tag args) ConstructVariant | (cpv tag args) ConstructPolyVariant
//!         | (nv tag args) NewVariant | (nr record args) NewRecord | (cd index) CloseData | (cr record args) ConstructRecord
//!         | (ca n) ConstructArray | (go i) GetOffset | (gf i) GetField | (split) | (tt tag) TestTag | (tpt i) TestPolyTag
//!         | (j i) Jump | (cj i) CJump | (pop n) | (slide n) | (mc f upvars) MakeClosure | (nc f upvars) NewClosure
//!         | (cc n) CloseClosure | (addi) (subi) (muli) (divi) (lti) (eqi) | (addb) (subb) (mulb) (divb) (ltb) (eqb)
//!         | (addf) (subf) (mulf) (divf) (ltf) (eqf) | (ret)
//! ```
//! `globals` lists the module's globals (the upvariables of the top-level function, in order)
//! with the value fields of each global's record type in type order (offsets of `GetOffset`).
//! Strings and names are byte lists in decimal / atoms.
use gluon::compiler_pipeline::Compileable;
use gluon::vm::compiler::CompiledFunction;
use gluon::vm::types::Instruction;
use gluon::base::types::TypeExt;
use gluon::{RootedThread, ThreadExt};

fn instr(i: &Instruction, out: &mut String) {
    use Instruction::*;
    let s = match *i {
        PushInt(n) => format!("(pi {})", n),
        PushByte(b) => format!("(pb {})", b),
        PushFloat(f) => format!("(pf {:016x})", f64::from(f).to_bits()),
        PushString(i) => format!("(ps {})", i),
        PushUpVar(i) => format!("(pu {})", i),
        Push(i) => format!("(p {})", i),
        Call(n) => format!("(call {})", n),
        TailCall(n) => format!("(tcall {})", n),
        ConstructVariant { tag, args } => format!("(cv {} {})", tag, args),
        ConstructPolyVariant { tag, args } => format!("(cpv {} {})", tag, args),
        NewVariant { tag, args } => format!("(nv {} {})", tag, args),
        NewRecord { record, args } => format!("(nr {} {})", record, args),
        CloseData { index } => format!("(cd {})", index),
        ConstructRecord { record, args } => format!("(cr {} {})", record, args),
        ConstructArray(n) => format!("(ca {})", n),
        GetOffset(i) => format!("(go {})", i),
        GetField(i) => format!("(gf {})", i),
        Split => "(split)".into(),
        TestTag(t) => format!("(tt {})", t),
        TestPolyTag(i) => format!("(tpt {})", i),
        Jump(i) => format!("(j {})", i),
        CJump(i) => format!("(cj {})", i),
        Pop(n) => format!("(pop {})", n),
        Slide(n) => format!("(slide {})", n),
        MakeClosure { function_index, upvars } => format!("(mc {} {})", function_index, upvars),
        NewClosure { function_index, upvars } => format!("(nc {} {})", function_index, upvars),
        CloseClosure(n) => format!("(cc {})", n),
        AddInt => "(addi)".into(),
        SubtractInt => "(subi)".into(),
        MultiplyInt => "(muli)".into(),
        DivideInt => "(divi)".into(),
        IntLT => "(lti)".into(),
        IntEQ => "(eqi)".into(),
        AddByte => "(addb)".into(),
        SubtractByte => "(subb)".into(),
        MultiplyByte => "(mulb)".into(),
        DivideByte => "(divb)".into(),
        ByteLT => "(ltb)".into(),
        ByteEQ => "(eqb)".into(),
        AddFloat => "(addf)".into(),
        SubtractFloat => "(subf)".into(),
        MultiplyFloat => "(mulf)".into(),
        DivideFloat => "(divf)".into(),
        FloatLT => "(ltf)".into(),
        FloatEQ => "(eqf)".into(),
        Return => "(ret)".into(),
    };
    out.push_str(&s);
}

fn atom(s: &str) -> String {
    // names travel as atoms: keep them free of blanks and parentheses
    s.chars().map(|c| if c.is_whitespace() || c == '(' || c == ')' { '?' } else { c }).collect()
}

fn function(f: &CompiledFunction, out: &mut String) {
    out.push_str(&format!("(fn {} (", f.args));
    for (k, i) in f.instructions.iter().enumerate() {
        if k > 0 {
            out.push(' ');
        }
        instr(i, out);
    }
    out.push_str(") (strings");
    for s in &f.strings {
        out.push_str(" (");
        let s: &str = &s[..];
        out.push_str(&s.bytes().map(|b| b.to_string()).collect::<Vec<_>>().join(" "));
        out.push(')');
    }
    out.push_str(") (records");
    for r in &f.records {
        out.push_str(" (");
        out.push_str(&r.iter().map(|n| atom(n.declared_name())).collect::<Vec<_>>().join(" "));
        out.push(')');
    }
    out.push_str(") (inner");
    for g in &f.inner_functions {
        out.push(' ');
        function(g, out);
    }
    out.push_str("))");
}

/// Compiles `src` with the settings of `vm` (the pipeline `run_expr` uses) and renders the
/// module for the model VM.  `Err` carries the first lines of the compiler's error.
pub fn export(vm: &RootedThread, name: &str, src: &str) -> Result<String, String> {
    let r = std::panic::catch_unwind(std::panic::AssertUnwindSafe(|| {
        let mut db = vm.get_database();
        let mut compiler = vm.module_compiler(&mut db);
        futures::executor::block_on(src.compile(&mut compiler, vm, name, src, None))
    }));
    let cv = match r {
        Ok(Ok(cv)) => cv,
        Ok(Err(e)) => return Err(format!("{}", e).lines().take(2).collect::<Vec<_>>().join(" | ")),
        Err(_) => return Err("panic while compiling".into()),
    };
    let mut out = String::from("(module (globals");
    for g in &cv.module.module_globals {
        let gname = g.as_str().trim_start_matches('@').to_string();
        out.push_str(&format!(" ({}", atom(&gname)));
        if let Ok(t) = vm.get_global_type(&gname) {
            let t = gluon::base::resolve::remove_aliases(&vm.get_env(), &mut gluon::base::types::NullInterner, t);
            for field in t.remove_forall().row_iter() {
                out.push(' ');
                out.push_str(&atom(field.name.declared_name()));
            }
        }
        out.push(')');
    }
    out.push_str(") ");
    function(&cv.module.function, &mut out);
    out.push(')');
    Ok(out)
}
