//! Type-directed random generation of well-typed, terminating MiniGluon programs, plus an
//! exhaustive enumerator of small programs (see [`enumerate`]).
//!
//! Termination: the only recursion is through the `rec` templates of [`Gen::rec_loop`], whose
//! functions count a clamped `Int` argument down to 0; everything else is simply typed.
//! A generated program can still *fail* (explicit `error`, unmatched pattern, arithmetic) — that
//! is intended — but never loops.
use super::ast::*;
use crate::rng::Rng;

/// Relative weights of the productions (0 switches a production off).
#[derive(Clone, Debug)]
pub struct Weights {
    pub leaf: u32,
    pub arith: u32,
    pub let_: u32,
    pub if_: u32,
    pub app: u32,
    pub record: u32,
    pub update: u32,
    pub tuple: u32,
    pub variant: u32,
    pub match_: u32,
    pub array: u32,
    pub andor: u32,
    pub seq: u32,
    pub rec: u32,
    /// the interaction combinators (arity, closures, wide records, overlapping patterns …)
    pub combinator: u32,
    /// percentage (0..100) of Int positions wrapped in `eff`
    pub eff_pct: u32,
    /// per-mille of positions replaced by `error "…"`
    pub error_pm: u32,
    /// percentage of integer literals taken from the boundary set (i64::MIN/MAX, 0, -1 …)
    pub boundary_pct: u32,
}

impl Default for Weights {
    fn default() -> Self {
        Weights {
            leaf: 4, arith: 6, let_: 6, if_: 3, app: 6, record: 4, update: 3, tuple: 2, variant: 3, match_: 6,
            array: 2, andor: 3, seq: 2, rec: 2, combinator: 5, eff_pct: 12, error_pm: 8, boundary_pct: 10,
        }
    }
}

/// Language features the generator may use.
#[derive(Clone, Debug)]
pub struct Features {
    pub bytes: bool,
    pub strings: bool,
    pub chars: bool,
    pub floats: bool,
    pub arrays: bool,
    /// `array.index` / `array.len`
    pub array_prims: bool,
    pub as_patterns: bool,
    pub literal_patterns: bool,
    /// several record-pattern alternatives in one `match` (crashes gluon's pattern translator
    /// on the unchanged tree when the alternatives name different fields or pun a field:
    /// finding C01 `match:record-alternatives`)
    pub multi_record_alts: bool,
    /// `{ f = e, .. base }` with `base` a plain variable and ≥ 2 effectful overridden fields out
    /// of base order (gluon evaluates them in base order: finding C01 `record-update:order`)
    pub update_reorder: bool,
    /// shadow names already in scope
    pub shadowing: bool,
    /// matches that may be non-exhaustive
    pub partial_matches: bool,
}

impl Default for Features {
    fn default() -> Self {
        Features {
            bytes: true, strings: true, chars: true, floats: false, arrays: true, array_prims: true, as_patterns: true,
            literal_patterns: true, multi_record_alts: true, update_reorder: true, shadowing: true, partial_matches: true,
        }
    }
}

#[derive(Clone, Debug)]
pub struct GenConfig {
    pub max_depth: u32,
    /// soft bound on the number of AST nodes
    pub max_size: u32,
    pub weights: Weights,
    pub features: Features,
}

impl Default for GenConfig {
    fn default() -> Self {
        GenConfig { max_depth: 5, max_size: 60, weights: Weights::default(), features: Features::default() }
    }
}

/// The variant types every generated program declares.
pub fn std_types() -> Vec<TypeDecl> {
    vec![
        TypeDecl {
            name: "T".into(),
            params: vec![],
            ctors: vec![("A".into(), vec![Ty::Int]), ("B".into(), vec![]), ("C".into(), vec![Ty::Int, Ty::named("T")])],
        },
        TypeDecl { name: "Opt".into(), params: vec!["a".into()], ctors: vec![("None".into(), vec![]), ("Some".into(), vec![Ty::Var("a".into())])] },
    ]
}

pub const BOUNDARY_INTS: [i64; 12] =
    [0, 1, -1, 2, i64::MAX, i64::MIN, i64::MAX - 1, i64::MIN + 1, 3037000500, -3037000500, 4294967296, 255];

const FIELD_POOL: [&str; 10] = ["a", "b", "c", "d", "e", "f", "g", "h", "x", "y"];

pub struct Gen<'r> {
    pub rng: &'r mut Rng,
    pub cfg: GenConfig,
    types: Vec<TypeDecl>,
    env: Vec<(Name, Ty)>,
    fresh: u32,
    budget: i64,
    rec_depth: u32,
    /// names of the combinators / productions used (for histograms)
    pub used: Vec<&'static str>,
}

/// Generates one program of a random first-order-or-function type.
pub fn gen_program(rng: &mut Rng, cfg: &GenConfig) -> Program {
    let mut g = Gen::new(rng, cfg.clone());
    let ty = g.result_ty();
    let expr = g.expr(&ty, cfg.max_depth);
    Program { types: std_types(), expr, ty }
}

/// Generates one program of the given type (which may mention `T` and `Opt` of [`std_types`]).
pub fn gen_program_of(rng: &mut Rng, cfg: &GenConfig, ty: &Ty) -> Program {
    let mut g = Gen::new(rng, cfg.clone());
    let expr = g.expr(ty, cfg.max_depth);
    Program { types: std_types(), expr, ty: ty.clone() }
}

/// Like [`gen_program`], also returning the production/combinator names that were used.
pub fn gen_program_traced(rng: &mut Rng, cfg: &GenConfig) -> (Program, Vec<&'static str>) {
    let mut g = Gen::new(rng, cfg.clone());
    let ty = g.result_ty();
    let expr = g.expr(&ty, cfg.max_depth);
    let used = std::mem::take(&mut g.used);
    (Program { types: std_types(), expr, ty }, used)
}

fn mentions(e: &Expr, x: &str) -> bool {
    let mut found = false;
    e.visit(&mut |e| {
        if let Expr::Var(y) = e {
            if y == x {
                found = true
            }
        }
    });
    found
}

fn pick_w(rng: &mut Rng, ws: &[u32]) -> usize {
    let total: u64 = ws.iter().map(|w| *w as u64).sum();
    if total == 0 {
        return 0;
    }
    let mut r = rng.below(total);
    for (i, w) in ws.iter().enumerate() {
        if r < *w as u64 {
            return i;
        }
        r -= *w as u64;
    }
    ws.len() - 1
}

impl<'r> Gen<'r> {
    pub fn new(rng: &'r mut Rng, cfg: GenConfig) -> Gen<'r> {
        let budget = cfg.max_size as i64;
        Gen { rng, cfg, types: std_types(), env: vec![], fresh: 0, budget, rec_depth: 0, used: vec![] }
    }

    fn fresh(&mut self, base: &str) -> Name {
        if self.cfg.features.shadowing && !self.env.is_empty() && self.rng.chance(1, 12) {
            // shadow a visible name
            let i = self.rng.below(self.env.len() as u64) as usize;
            return self.env[i].0.clone();
        }
        self.fresh += 1;
        format!("{}{}", base, self.fresh)
    }
    fn fresh_unique(&mut self, base: &str) -> Name {
        self.fresh += 1;
        format!("{}{}", base, self.fresh)
    }

    /// variables of type `ty` that are visible (not shadowed by a later binding of the same name)
    fn vars_of(&self, ty: &Ty) -> Vec<Name> {
        let mut out = vec![];
        for (i, (n, t)) in self.env.iter().enumerate() {
            if t == ty && !self.env[i + 1..].iter().any(|(m, _)| m == n) {
                out.push(n.clone());
            }
        }
        out
    }
    fn visible(&self) -> Vec<(Name, Ty)> {
        let mut out = vec![];
        for (i, (n, t)) in self.env.iter().enumerate() {
            if !self.env[i + 1..].iter().any(|(m, _)| m == n) {
                out.push((n.clone(), t.clone()));
            }
        }
        out
    }

    // ------------------------------------------------------------ types
    pub fn result_ty(&mut self) -> Ty {
        self.ty(2)
    }

    fn base_ty(&mut self) -> Ty {
        let f = self.cfg.features.clone();
        loop {
            match self.rng.below(12) {
                0..=5 => return Ty::Int,
                6 => return Ty::Bool,
                7 if f.bytes => return Ty::Byte,
                8 if f.strings => return Ty::Str,
                9 if f.chars => return Ty::Char,
                10 => return Ty::Unit,
                11 if f.floats => return Ty::Float,
                _ => {}
            }
        }
    }

    fn record_ty(&mut self, d: u32, nfields: usize) -> Ty {
        let mut names: Vec<&str> = FIELD_POOL.to_vec();
        let mut fs = vec![];
        for _ in 0..nfields {
            let i = self.rng.below(names.len() as u64) as usize;
            let n = names.remove(i);
            let t = if self.rng.chance(2, 3) { Ty::Int } else { self.ty(d.saturating_sub(1)) };
            fs.push((n.to_string(), t));
        }
        Ty::Record(fs)
    }

    pub fn ty(&mut self, d: u32) -> Ty {
        if d == 0 || self.rng.chance(1, 2) {
            return self.base_ty();
        }
        match self.rng.below(9) {
            0 | 1 => {
                let wide = self.rng.chance(1, 4);
                let n = 1 + self.rng.below(if wide { 8 } else { 3 }) as usize;
                self.record_ty(d, n)
            }
            2 => {
                let n = 2 + self.rng.below(2) as usize;
                Ty::Tuple((0..n).map(|_| self.ty(d - 1)).collect())
            }
            3 => Ty::named("T"),
            4 => Ty::Named("Opt".into(), vec![self.ty(d - 1)]),
            5 if self.cfg.features.arrays => Ty::Array(Box::new(self.ty(d - 1))),
            6 | 7 => {
                let n = 1 + self.rng.below(3) as usize;
                let args = (0..n).map(|_| self.ty(d - 1)).collect();
                Ty::fun(args, self.ty(d - 1))
            }
            _ => self.base_ty(),
        }
    }

    // ------------------------------------------------------------ leaves
    fn int_lit(&mut self) -> i64 {
        if self.rng.below(100) < self.cfg.weights.boundary_pct as u64 {
            *self.rng.pick(&BOUNDARY_INTS)
        } else {
            self.rng.range(-3, 9)
        }
    }

    fn str_lit(&mut self) -> String {
        const POOL: [&str; 8] = ["", "a", "ab", "abc", "hello world", "q\"uote", "back\\slash\n", "h\u{e9}llo \u{3bb}"];
        self.rng.pick(&POOL).to_string()
    }

    /// the smallest closed expression of a type (no variables, no effects, never fails)
    pub fn default_of(&mut self, ty: &Ty) -> Expr {
        match ty {
            Ty::Int => int(self.rng.range(0, 3)),
            Ty::Byte => Expr::Lit(Lit::Byte(self.rng.range(0, 3) as u8)),
            Ty::Char => Expr::Lit(Lit::Char(*self.rng.pick(&['a', 'b', 'z', '\n', '\'', '0']))),
            Ty::Str => Expr::Lit(Lit::Str(self.str_lit())),
            Ty::Float => Expr::Lit(Lit::Float(self.rng.pick(&[0.5f64, 1.5, -2.25, 100.0, 0.0]).to_bits())),
            Ty::Bool => bool_(self.rng.chance(1, 2)),
            Ty::Unit => unit(),
            Ty::Fun(args, r) => {
                let ps: Vec<Name> = args.iter().map(|_| self.fresh_unique("p")).collect();
                // sometimes return one of the parameters when the type fits
                let fits: Vec<&Name> = ps.iter().zip(args).filter(|(_, t)| *t == &**r).map(|(p, _)| p).collect();
                let body = if !fits.is_empty() && self.rng.chance(2, 3) { Expr::Var((*self.rng.pick(&fits)).clone()) } else { self.default_of(r) };
                let unused = ps.iter().any(|p| !mentions(&body, p));
                let e = Expr::Lam(ps, Box::new(body));
                let _ = unused;
                Expr::Ann(Box::new(e), ty.clone())
            }
            Ty::Record(fs) => Expr::Record(fs.iter().map(|(n, t)| (n.clone(), self.default_of(t))).collect(), None),
            Ty::Tuple(ts) => Expr::Tuple(ts.iter().map(|t| self.default_of(t)).collect()),
            Ty::Named(n, args) => {
                if n == "T" {
                    match self.rng.below(3) {
                        0 => Expr::Con("A".into(), vec![int(self.rng.range(0, 3))]),
                        1 => Expr::Con("B".into(), vec![]),
                        _ => Expr::Con("C".into(), vec![int(self.rng.range(0, 3)), Expr::Con("B".into(), vec![])]),
                    }
                } else if self.rng.chance(1, 3) {
                    Expr::Ann(Box::new(Expr::Con("None".into(), vec![])), ty.clone())
                } else {
                    Expr::Con("Some".into(), vec![self.default_of(&args[0])])
                }
            }
            Ty::Array(t) => {
                let n = 1 + self.rng.below(3);
                Expr::Array((0..n).map(|_| self.default_of(t)).collect())
            }
            Ty::Var(_) => int(0),
        }
    }

    fn leaf(&mut self, ty: &Ty) -> Expr {
        let vs = self.vars_of(ty);
        if !vs.is_empty() && self.rng.chance(3, 4) {
            return Expr::Var(self.rng.pick(&vs).clone());
        }
        match ty {
            Ty::Int => int(self.int_lit()),
            Ty::Byte => Expr::Lit(Lit::Byte(*self.rng.pick(&[0u8, 1, 2, 7, 127, 128, 200, 255]))),
            _ => self.default_of(ty),
        }
    }

    // ------------------------------------------------------------ expressions
    pub fn expr(&mut self, ty: &Ty, d: u32) -> Expr {
        self.budget -= 1;
        if self.rng.below(1000) < self.cfg.weights.error_pm as u64 {
            self.used.push("error");
            let e = Expr::Error(self.rng.pick(&["boom", "e1", "bad thing", ""]).to_string());
            // `error` has type `forall a . a`; in a record field / scrutinee position gluon keeps
            // the polymorphic type (and its compiler panics on `let { g } = error ".."`): pin it
            return match ty {
                Ty::Int | Ty::Bool | Ty::Byte | Ty::Str | Ty::Char | Ty::Float => e,
                _ => Expr::Ann(Box::new(e), ty.clone()),
            };
        }
        let e = self.expr_(ty, d);
        if *ty == Ty::Int && self.rng.below(100) < self.cfg.weights.eff_pct as u64 {
            self.used.push("eff");
            return eff(e);
        }
        e
    }

    fn expr_(&mut self, ty: &Ty, d: u32) -> Expr {
        if d == 0 || self.budget <= 0 {
            return self.leaf(ty);
        }
        let w = self.cfg.weights.clone();
        // generic productions, then type-specific ones
        let typed = match ty {
            Ty::Int => w.arith,
            Ty::Bool => w.andor + w.arith,
            Ty::Byte => w.arith,
            Ty::Record(_) => w.record + w.update,
            Ty::Tuple(_) => w.tuple,
            Ty::Named(..) => w.variant,
            Ty::Array(_) => w.array,
            Ty::Fun(..) => w.app,
            _ => 0,
        };
        let ws = [w.leaf, w.let_, w.if_, w.app, w.match_, w.seq, w.rec, w.combinator, typed * 2, w.record /* proj */];
        match pick_w(self.rng, &ws) {
            0 => self.leaf(ty),
            1 => self.let_(ty, d),
            2 => {
                self.used.push("if");
                Expr::If(Box::new(self.expr(&Ty::Bool, d - 1)), Box::new(self.expr(ty, d - 1)), Box::new(self.expr(ty, d - 1)))
            }
            3 => self.app(ty, d),
            4 => self.match_(ty, d),
            5 => {
                self.used.push("seq");
                if self.rng.chance(1, 2) {
                    Expr::Seq(Box::new(self.expr(&Ty::Unit, d - 1)), Box::new(self.expr(ty, d - 1)))
                } else {
                    let t = self.ty(1);
                    Expr::Let(Pat::Wild, Box::new(self.expr(&t, d - 1)), Box::new(self.expr(ty, d - 1)))
                }
            }
            6 => self.rec_loop(ty, d),
            7 => self.combinator(ty, d),
            8 => self.typed(ty, d),
            _ => self.proj(ty, d),
        }
    }

    fn with_binding<R>(&mut self, binds: Vec<(Name, Ty)>, f: impl FnOnce(&mut Self) -> R) -> R {
        let n = self.env.len();
        self.env.extend(binds);
        let r = f(self);
        self.env.truncate(n);
        r
    }

    fn let_(&mut self, ty: &Ty, d: u32) -> Expr {
        self.used.push("let");
        let t1 = self.ty(2);
        let e1 = self.expr(&t1, d - 1);
        if self.rng.chance(1, 3) {
            // destructuring let (irrefutable pattern)
            let (p, binds) = self.irrefutable_pat(&t1, 2);
            let body = self.with_binding(binds, |g| g.expr(ty, d - 1));
            Expr::Let(p, Box::new(e1), Box::new(body))
        } else {
            let x = self.fresh("x");
            let body = self.with_binding(vec![(x.clone(), t1)], |g| g.expr(ty, d - 1));
            Expr::Let(Pat::Var(x), Box::new(e1), Box::new(body))
        }
    }

    /// a pattern that always matches a value of type `ty`, with the variables it binds
    fn irrefutable_pat(&mut self, ty: &Ty, d: u32) -> (Pat, Vec<(Name, Ty)>) {
        match ty {
            Ty::Record(fs) if d > 0 && !fs.is_empty() => {
                // a random subset of the fields, in random order
                let mut idx: Vec<usize> = (0..fs.len()).collect();
                let mut chosen = vec![];
                let k = self.rng.below(fs.len() as u64 + 1) as usize;
                for _ in 0..k {
                    let i = self.rng.below(idx.len() as u64) as usize;
                    chosen.push(idx.remove(i));
                }
                if self.rng.chance(1, 2) {
                    chosen.sort();
                }
                let mut binds = vec![];
                let mut pf = vec![];
                for i in chosen {
                    let (l, t) = &fs[i];
                    if self.rng.chance(1, 2) && !binds.iter().any(|(n, _): &(Name, Ty)| n == l) {
                        binds.push((l.clone(), t.clone()));
                        pf.push((l.clone(), None));
                    } else {
                        let (p, b) = self.irrefutable_pat(t, d - 1);
                        binds.extend(b);
                        pf.push((l.clone(), Some(p)));
                    }
                }
                (Pat::Record(pf), binds)
            }
            Ty::Tuple(ts) if d > 0 => {
                let mut binds = vec![];
                let mut ps = vec![];
                for t in ts {
                    let (p, b) = self.irrefutable_pat(t, d - 1);
                    binds.extend(b);
                    ps.push(p);
                }
                (Pat::Tuple(ps), binds)
            }
            _ => {
                if self.rng.chance(1, 5) {
                    (Pat::Wild, vec![])
                } else {
                    let x = self.fresh_unique("v");
                    if self.cfg.features.as_patterns && d > 0 && self.rng.chance(1, 8) {
                        if let Ty::Record(_) | Ty::Tuple(_) = ty {
                            let (p, mut b) = self.irrefutable_pat(ty, d - 1);
                            b.push((x.clone(), ty.clone()));
                            return (Pat::As(x, Box::new(p)), b);
                        }
                    }
                    (Pat::Var(x.clone()), vec![(x, ty.clone())])
                }
            }
        }
    }

    fn args_for(&mut self, tys: &[Ty], d: u32) -> Vec<Expr> {
        tys.iter().map(|t| self.expr(t, d.saturating_sub(1))).collect()
    }

    /// an application whose result has type `ty`
    fn app(&mut self, ty: &Ty, d: u32) -> Expr {
        self.used.push("app");
        // a visible function variable whose result (after some number of arguments) is `ty`
        let mut cands: Vec<(Name, Vec<Ty>)> = vec![];
        for (n, t) in self.visible() {
            let (args, _) = t.uncurry();
            for k in 1..=args.len() {
                let rest = Ty::fun(args[k..].to_vec(), t.uncurry().1);
                if &rest == ty {
                    cands.push((n.clone(), args[..k].to_vec()));
                }
            }
        }
        if !cands.is_empty() && self.rng.chance(2, 3) {
            let (f, ats) = self.rng.pick(&cands).clone();
            let args = self.args_for(&ats, d);
            return self.split_app(var(&f), args);
        }
        // a fresh function: literal lambda, let-bound, or produced by an expression
        let n = 1 + self.rng.below(3) as usize;
        let ats: Vec<Ty> = (0..n).map(|_| self.ty(1)).collect();
        let fty = Ty::fun(ats.clone(), ty.clone());
        let f = self.expr(&fty, d - 1);
        let args = self.args_for(&ats, d);
        self.split_app(f, args)
    }

    /// `f a b c` printed as one application or split into stages `((f a) b c)`
    fn split_app(&mut self, f: Expr, mut args: Vec<Expr>) -> Expr {
        if args.len() >= 2 && self.rng.chance(1, 3) {
            let k = 1 + self.rng.below(args.len() as u64 - 1) as usize;
            let rest = args.split_off(k);
            app(app(f, args), rest)
        } else {
            app(f, args)
        }
    }

    fn proj(&mut self, ty: &Ty, d: u32) -> Expr {
        self.used.push("proj");
        // a visible record/tuple variable with a field of the right type
        let mut cands = vec![];
        for (n, t) in self.visible() {
            match &t {
                Ty::Record(fs) => {
                    for (l, ft) in fs {
                        if ft == ty {
                            cands.push((n.clone(), l.clone()));
                        }
                    }
                }
                Ty::Tuple(ts) => {
                    for (i, ft) in ts.iter().enumerate() {
                        if ft == ty {
                            cands.push((n.clone(), format!("_{}", i)));
                        }
                    }
                }
                _ => {}
            }
        }
        if !cands.is_empty() && self.rng.chance(2, 3) {
            let (r, l) = self.rng.pick(&cands).clone();
            return Expr::Proj(Box::new(var(&r)), l);
        }
        let n = 1 + self.rng.below(4) as usize;
        let Ty::Record(mut fs) = self.record_ty(1, n) else { unreachable!() };
        let i = self.rng.below(fs.len() as u64) as usize;
        fs[i].1 = ty.clone();
        let l = fs[i].0.clone();
        let r = self.expr(&Ty::Record(fs), d - 1);
        Expr::Proj(Box::new(r), l)
    }

    fn typed(&mut self, ty: &Ty, d: u32) -> Expr {
        match ty {
            Ty::Int => {
                self.used.push("arith");
                if self.cfg.features.array_prims && self.cfg.features.arrays && self.rng.chance(1, 10) {
                    let a = self.expr(&Ty::Array(Box::new(Ty::Int)), d - 1);
                    return if self.rng.chance(1, 2) {
                        Expr::ArrayLen(Box::new(a))
                    } else {
                        let i = if self.rng.chance(3, 4) { int(self.rng.range(0, 2)) } else { self.expr(&Ty::Int, d - 1) };
                        Expr::ArrayIndex(Box::new(a), Box::new(i))
                    };
                }
                let op = *self.rng.pick(&[PrimOp::IntAdd, PrimOp::IntAdd, PrimOp::IntSub, PrimOp::IntMul, PrimOp::IntDiv]);
                prim(op, self.expr(&Ty::Int, d - 1), self.expr(&Ty::Int, d - 1))
            }
            Ty::Byte => {
                self.used.push("arith-byte");
                let op = *self.rng.pick(&[PrimOp::ByteAdd, PrimOp::ByteSub, PrimOp::ByteMul, PrimOp::ByteDiv]);
                prim(op, self.expr(&Ty::Byte, d - 1), self.expr(&Ty::Byte, d - 1))
            }
            Ty::Bool => match self.rng.below(5) {
                0 => {
                    self.used.push("and");
                    Expr::And(Box::new(self.expr(&Ty::Bool, d - 1)), Box::new(self.expr(&Ty::Bool, d - 1)))
                }
                1 => {
                    self.used.push("or");
                    Expr::Or(Box::new(self.expr(&Ty::Bool, d - 1)), Box::new(self.expr(&Ty::Bool, d - 1)))
                }
                2 if self.cfg.features.bytes => {
                    self.used.push("cmp-byte");
                    let op = *self.rng.pick(&[PrimOp::ByteEq, PrimOp::ByteLt]);
                    prim(op, self.expr(&Ty::Byte, d - 1), self.expr(&Ty::Byte, d - 1))
                }
                _ => {
                    self.used.push("cmp");
                    let op = *self.rng.pick(&[PrimOp::IntEq, PrimOp::IntLt]);
                    prim(op, self.expr(&Ty::Int, d - 1), self.expr(&Ty::Int, d - 1))
                }
            },
            Ty::Record(fs) => {
                if self.rng.below((self.cfg.weights.record + self.cfg.weights.update).max(1) as u64) < self.cfg.weights.update as u64 {
                    self.update(fs, d)
                } else {
                    self.used.push("record");
                    Expr::Record(fs.iter().map(|(n, t)| (n.clone(), self.expr(t, d - 1))).collect(), None)
                }
            }
            Ty::Tuple(ts) => {
                self.used.push("tuple");
                Expr::Tuple(ts.iter().map(|t| self.expr(t, d - 1)).collect())
            }
            Ty::Named(n, args) => {
                self.used.push("con");
                if n == "T" {
                    match self.rng.below(3) {
                        0 => Expr::Con("A".into(), vec![self.expr(&Ty::Int, d - 1)]),
                        1 => Expr::Con("B".into(), vec![]),
                        _ => Expr::Con("C".into(), vec![self.expr(&Ty::Int, d - 1), self.expr(ty, d - 1)]),
                    }
                } else if self.rng.chance(1, 4) {
                    Expr::Ann(Box::new(Expr::Con("None".into(), vec![])), ty.clone())
                } else {
                    Expr::Con("Some".into(), vec![self.expr(&args[0], d - 1)])
                }
            }
            Ty::Array(t) => {
                self.used.push("array");
                let n = self.rng.below(4);
                if n == 0 {
                    // an empty array literal needs its element type from the context: annotate
                    return Expr::Ann(Box::new(Expr::Array(vec![])), ty.clone());
                }
                Expr::Array((0..n).map(|_| self.expr(t, d - 1)).collect())
            }
            Ty::Fun(args, r) => {
                self.used.push("lam");
                // curried in a random way: \a b -> \c -> body
                let mut ps: Vec<Name> = vec![];
                for _ in args {
                    let mut p = self.fresh("p");
                    if ps.contains(&p) {
                        p = self.fresh_unique("p");
                    }
                    ps.push(p);
                }
                let binds: Vec<(Name, Ty)> = ps.iter().cloned().zip(args.iter().cloned()).collect();
                let body = self.with_binding(binds, |g| g.expr(r, d - 1));
                let mut groups: Vec<Vec<Name>> = vec![vec![]];
                for p in ps {
                    if !groups.last().unwrap().is_empty() && self.rng.chance(1, 3) {
                        groups.push(vec![]);
                    }
                    groups.last_mut().unwrap().push(p);
                }
                let unused = groups.iter().flatten().any(|p| !mentions(&body, p));
                let mut e = body;
                for g in groups.into_iter().rev() {
                    e = Expr::Lam(g, Box::new(e));
                }
                // a lambda with an unused parameter is generalised by gluon even as a record
                // field / array element, which makes two such values of the "same" type differ
                // (rank-n field types): pin the monomorphic type
                let _ = unused;
                Expr::Ann(Box::new(e), ty.clone())
            }
            _ => self.leaf(ty),
        }
    }

    /// `{ l = e, …, .. base }` of record type `fs`
    fn update(&mut self, fs: &[(Name, Ty)], d: u32) -> Expr {
        self.used.push("record-update");
        // result order of an update: new fields (source order) then the base's fields in base
        // order (vm/src/core/mod.rs Record arm).  Choose k leading fields as new, the rest
        // come from the base; override a subset of those.
        let k = self.rng.below(fs.len() as u64 + 1) as usize;
        let (newf, basef) = fs.split_at(k);
        if basef.is_empty() && self.rng.chance(1, 2) {
            // base is the empty record: `{ a = 1, .. {} }` is not interesting; build plainly
            return Expr::Record(fs.iter().map(|(n, t)| (n.clone(), self.expr(t, d - 1))).collect(), None);
        }
        let base_ty = Ty::Record(basef.to_vec());
        let mut over: Vec<usize> = (0..basef.len()).filter(|_| self.rng.chance(1, 2)).collect();
        let var_base = self.rng.chance(1, 2);
        // source order of the explicit fields: new fields in order, overrides interleaved/permuted
        let reorder_ok = self.cfg.features.update_reorder || !var_base;
        if reorder_ok && self.rng.chance(1, 2) {
            // permute the overrides
            for i in (1..over.len()).rev() {
                let j = self.rng.below(i as u64 + 1) as usize;
                over.swap(i, j);
            }
        }
        let mut fields: Vec<(Name, Expr)> = vec![];
        let mut pending_over: Vec<(Name, Expr)> = over.iter().map(|i| (basef[*i].0.clone(), self.expr(&basef[*i].1, d - 1))).collect();
        for (n, t) in newf {
            // overrides may come before, between or after the new fields
            while reorder_ok && !pending_over.is_empty() && self.rng.chance(1, 3) {
                fields.push(pending_over.remove(0));
            }
            fields.push((n.clone(), self.expr(t, d - 1)));
        }
        fields.extend(pending_over);
        if fields.is_empty() {
            return Expr::Record(fs.iter().map(|(n, t)| (n.clone(), self.expr(t, d - 1))).collect(), None);
        }
        let base = self.expr(&base_ty, d - 1);
        if var_base {
            let b = self.fresh_unique("base");
            Expr::Let(Pat::Var(b.clone()), Box::new(base), Box::new(Expr::Record(fields, Some(Box::new(var(&b))))))
        } else {
            Expr::Record(fields, Some(Box::new(base)))
        }
    }

    // ------------------------------------------------------------ match
    /// a pattern for values of type `ty` that may or may not match, with its bindings
    fn refutable_pat(&mut self, ty: &Ty, d: u32) -> (Pat, Vec<(Name, Ty)>) {
        let f = self.cfg.features.clone();
        if d == 0 || self.rng.chance(1, 4) {
            return self.irrefutable_pat(ty, 0);
        }
        let (p, b) = match ty {
            Ty::Int if f.literal_patterns => (Pat::Lit(Lit::Int(if self.rng.chance(1, 8) { *self.rng.pick(&BOUNDARY_INTS) } else { self.rng.range(-1, 3) })), vec![]),
            Ty::Byte if f.literal_patterns => (Pat::Lit(Lit::Byte(self.rng.range(0, 3) as u8)), vec![]),
            Ty::Char if f.literal_patterns => (Pat::Lit(Lit::Char(*self.rng.pick(&['a', 'b', 'z', '\n']))), vec![]),
            Ty::Str if f.literal_patterns => (Pat::Lit(Lit::Str(self.str_lit())), vec![]),
            Ty::Bool => (Pat::Con(if self.rng.chance(1, 2) { "True" } else { "False" }.into(), vec![]), vec![]),
            Ty::Named(n, args) => {
                if n == "T" {
                    match self.rng.below(3) {
                        0 => {
                            let (p, b) = self.refutable_pat(&Ty::Int, d - 1);
                            (Pat::Con("A".into(), vec![p]), b)
                        }
                        1 => (Pat::Con("B".into(), vec![]), vec![]),
                        _ => {
                            let (p1, mut b) = self.refutable_pat(&Ty::Int, d - 1);
                            let (p2, b2) = self.refutable_pat(ty, d - 1);
                            b.extend(b2);
                            (Pat::Con("C".into(), vec![p1, p2]), b)
                        }
                    }
                } else if self.rng.chance(1, 3) {
                    (Pat::Con("None".into(), vec![]), vec![])
                } else {
                    let (p, b) = self.refutable_pat(&args[0], d - 1);
                    (Pat::Con("Some".into(), vec![p]), b)
                }
            }
            Ty::Tuple(ts) => {
                let mut binds = vec![];
                let mut ps = vec![];
                for t in ts {
                    let (p, b) = self.refutable_pat(t, d - 1);
                    binds.extend(b);
                    ps.push(p);
                }
                (Pat::Tuple(ps), binds)
            }
            Ty::Record(fs) if !fs.is_empty() => {
                let mut binds: Vec<(Name, Ty)> = vec![];
                let mut pf = vec![];
                let mut idx: Vec<usize> = (0..fs.len()).collect();
                let k = 1 + self.rng.below(fs.len() as u64) as usize;
                for _ in 0..k {
                    let i = idx.remove(self.rng.below(idx.len() as u64) as usize);
                    let (l, t) = &fs[i];
                    if self.rng.chance(1, 3) && !binds.iter().any(|(n, _)| n == l) {
                        binds.push((l.clone(), t.clone()));
                        pf.push((l.clone(), None));
                    } else {
                        let (p, b) = self.refutable_pat(t, d - 1);
                        binds.extend(b);
                        pf.push((l.clone(), Some(p)));
                    }
                }
                (Pat::Record(pf), binds)
            }
            _ => return self.irrefutable_pat(ty, 0),
        };
        if f.as_patterns && self.rng.chance(1, 8) {
            let x = self.fresh_unique("w");
            let mut b = b;
            b.push((x.clone(), ty.clone()));
            return (Pat::As(x, Box::new(p)), b);
        }
        (p, b)
    }

    fn is_record_pat(p: &Pat) -> bool {
        match p {
            Pat::Record(_) => true,
            Pat::As(_, p) => Self::is_record_pat(p),
            _ => false,
        }
    }
    fn contains_record_pat(p: &Pat) -> bool {
        match p {
            Pat::Record(_) => true,
            Pat::As(_, p) => Self::contains_record_pat(p),
            Pat::Con(_, ps) | Pat::Tuple(ps) => ps.iter().any(Self::contains_record_pat),
            _ => false,
        }
    }

    fn match_(&mut self, ty: &Ty, d: u32) -> Expr {
        self.used.push("match");
        let st = match self.rng.below(8) {
            0 | 1 => Ty::named("T"),
            2 => Ty::Named("Opt".into(), vec![self.ty(1)]),
            3 => Ty::Int,
            4 => Ty::Tuple(vec![self.ty(1), self.ty(1)]),
            5 => Ty::Bool,
            _ => self.ty(2),
        };
        let scrut = self.expr(&st, d - 1);
        let alts = self.alts(&st, ty, d);
        Expr::Match(Box::new(scrut), alts)
    }

    fn alts(&mut self, st: &Ty, ty: &Ty, d: u32) -> Vec<(Pat, Expr)> {
        let n = 1 + self.rng.below(4) as usize;
        let mut alts = vec![];
        let mut record_alts = 0;
        for _ in 0..n {
            let (p, binds) = self.refutable_pat(st, 2);
            if Self::contains_record_pat(&p) {
                record_alts += 1;
                if record_alts > 1 && !self.cfg.features.multi_record_alts {
                    continue;
                }
            }
            let irref = matches!(p, Pat::Var(_) | Pat::Wild);
            let body = self.with_binding(binds, |g| g.expr(ty, d - 1));
            alts.push((p, body));
            if irref {
                break;
            }
        }
        let last_catches = matches!(alts.last(), Some((Pat::Var(_) | Pat::Wild, _)));
        if !last_catches && !(self.cfg.features.partial_matches && self.rng.chance(1, 4)) {
            let catch_all = if self.rng.chance(1, 2) { Pat::Wild } else { Pat::Var(self.fresh_unique("o")) };
            let binds = match &catch_all {
                Pat::Var(x) => vec![(x.clone(), st.clone())],
                _ => vec![],
            };
            let body = self.with_binding(binds, |g| g.expr(ty, d - 1));
            alts.push((catch_all, body));
        }
        alts
    }

    // ------------------------------------------------------------ recursion
    /// `rec let f n acc = if n < 1 then acc else if 5 < n then acc else f (n - 1) (step acc)`
    /// (optionally a mutually recursive pair), applied to a small counter.
    fn rec_loop(&mut self, ty: &Ty, d: u32) -> Expr {
        if self.rec_depth >= 2 {
            return self.leaf(ty);
        }
        self.used.push("rec");
        self.rec_depth += 1;
        let f = self.fresh_unique("f");
        let g = self.fresh_unique("g");
        let n = self.fresh_unique("n");
        let acc = self.fresh_unique("acc");
        let mutual = self.rng.chance(1, 2);
        let mk_body = |this: &mut Self, callee: &str| -> Expr {
            let step = this.with_binding(vec![(n.clone(), Ty::Int), (acc.clone(), ty.clone())], |gg| gg.expr(ty, d.saturating_sub(2)));
            let call = app(var(callee), vec![prim(PrimOp::IntSub, var(&n), int(1)), step]);
            Expr::If(
                Box::new(prim(PrimOp::IntLt, var(&n), int(1))),
                Box::new(var(&acc)),
                Box::new(Expr::If(Box::new(prim(PrimOp::IntLt, int(5), var(&n))), Box::new(var(&acc)), Box::new(call))),
            )
        };
        let mut binds = vec![];
        if mutual {
            let b1 = mk_body(self, &g);
            let b2 = mk_body(self, &f);
            binds.push(RecBind { name: f.clone(), params: vec![n.clone(), acc.clone()], body: b1 });
            binds.push(RecBind { name: g.clone(), params: vec![n.clone(), acc.clone()], body: b2 });
        } else {
            let b1 = mk_body(self, &f);
            binds.push(RecBind { name: f.clone(), params: vec![n.clone(), acc.clone()], body: b1 });
        }
        self.rec_depth -= 1;
        let count = int(self.rng.range(0, 4));
        let init = self.expr(ty, d - 1);
        let fty = Ty::fun(vec![Ty::Int, ty.clone()], ty.clone());
        let use_ = if self.rng.chance(1, 3) {
            // leave the function in scope for the rest of the body as well
            let call = app(var(&f), vec![count, init]);
            let x = self.fresh_unique("r");
            let rest = self.with_binding(vec![(f.clone(), fty), (x.clone(), ty.clone())], |gg| gg.expr(ty, d - 1));
            Expr::Let(Pat::Var(x), Box::new(call), Box::new(rest))
        } else {
            app(var(&f), vec![count, init])
        };
        Expr::Rec(binds, Box::new(use_))
    }

    // ------------------------------------------------------------ interaction combinators
    fn combinator(&mut self, ty: &Ty, d: u32) -> Expr {
        match self.rng.below(8) {
            0 | 1 => self.comb_arity(ty, d),
            2 => self.comb_closure(ty, d),
            3 => self.comb_wide_record(ty, d),
            4 => self.comb_overlap(ty, d),
            5 => self.comb_short_circuit(ty, d),
            6 => self.comb_boundary(ty, d),
            _ => self.comb_eff_order(ty, d),
        }
    }

    /// finishes a combinator that computed an Int: uses it to produce a value of type `ty`
    fn finish_int(&mut self, e: Expr, ty: &Ty, d: u32) -> Expr {
        if *ty == Ty::Int {
            return e;
        }
        let x = self.fresh_unique("k");
        let body = self.with_binding(vec![(x.clone(), Ty::Int)], |g| g.expr(ty, d.saturating_sub(1)));
        Expr::Let(Pat::Var(x), Box::new(e), Box::new(body))
    }

    /// a function of arity n applied to k < n, k = n, k > n arguments, in tail or non-tail position
    fn comb_arity(&mut self, ty: &Ty, d: u32) -> Expr {
        self.used.push("comb:arity");
        let n = 1 + self.rng.below(4) as usize; // declared arity
        let m = self.rng.below(3) as usize; // extra arity of the returned function
        let f = self.fresh_unique("fa");
        let ps: Vec<Name> = (0..n).map(|_| self.fresh_unique("a")).collect();
        let qs: Vec<Name> = (0..m).map(|_| self.fresh_unique("b")).collect();
        let mut all: Vec<(Name, Ty)> = ps.iter().chain(qs.iter()).map(|p| (p.clone(), Ty::Int)).collect();
        // body: an Int expression over all parameters, with an effect to pin the call time
        let mut sum = eff(int(100 + n as i64));
        for (p, _) in &all {
            sum = prim(PrimOp::IntAdd, sum, var(p));
        }
        if d > 1 && self.rng.chance(1, 2) {
            let extra = self.with_binding(std::mem::take(&mut all), |g| g.expr(&Ty::Int, d - 2));
            sum = prim(PrimOp::IntAdd, sum, extra);
        }
        let inner = if m > 0 { Expr::Lam(qs.clone(), Box::new(sum)) } else { sum };
        let fdef = Expr::Lam(ps.clone(), Box::new(inner));
        let total = n + m;
        let args: Vec<Expr> = (0..total).map(|i| if self.rng.chance(1, 3) { eff(int(i as i64 + 1)) } else { self.expr(&Ty::Int, d.saturating_sub(2)) }).collect();
        // stage the arguments: k1 now, rest later
        let k = self.rng.below(total as u64 + 1) as usize;
        let (now, later) = args.split_at(k);
        let call: Expr = if k == 0 {
            app(var(&f), later.to_vec())
        } else if later.is_empty() {
            app(var(&f), now.to_vec())
        } else {
            let g = self.fresh_unique("pa");
            let_(&g, app(var(&f), now.to_vec()), Expr::Seq(Box::new(Expr::Let(Pat::Wild, Box::new(eff(int(50))), Box::new(unit()))), Box::new(app(var(&g), later.to_vec()))))
        };
        // tail position (body of a wrapper function that is called) or non-tail (operand)
        let placed = match self.rng.below(3) {
            0 => call,
            1 => prim(PrimOp::IntAdd, call, int(1)),
            _ => {
                let w = self.fresh_unique("wr");
                let u = self.fresh_unique("u");
                let_(&w, Expr::Lam(vec![u], Box::new(call)), app(var(&w), vec![unit()]))
            }
        };
        let e = let_(&f, fdef, placed);
        self.finish_int(e, ty, d)
    }

    /// closures capturing upvalues of upvalues (nesting ≤ 3), applied in stages
    fn comb_closure(&mut self, ty: &Ty, d: u32) -> Expr {
        self.used.push("comb:closure");
        let a = self.fresh_unique("ca");
        let b = self.fresh_unique("cb");
        let c = self.fresh_unique("cc");
        let mk = self.fresh_unique("mk");
        let depth = 2 + self.rng.below(2);
        let body3 = prim(PrimOp::IntAdd, prim(PrimOp::IntMul, var(&a), int(100)), prim(PrimOp::IntAdd, prim(PrimOp::IntMul, var(&b), int(10)), var(&c)));
        let body2 = prim(PrimOp::IntAdd, prim(PrimOp::IntMul, var(&a), int(10)), var(&b));
        let def = if depth == 3 {
            lam(&[&a], let_("t1", eff(var(&a)), lam(&[&b], let_("t2", eff(var(&b)), lam(&[&c], prim(PrimOp::IntAdd, body3, prim(PrimOp::IntAdd, var("t1"), var("t2"))))))))
        } else {
            lam(&[&a], lam(&[&b], body2))
        };
        let args: Vec<Expr> = (0..depth).map(|i| if self.rng.chance(1, 2) { int(i as i64 + 1) } else { self.expr(&Ty::Int, d.saturating_sub(2)) }).collect();
        let use_ = match self.rng.below(3) {
            0 => app(var(&mk), args),
            1 => {
                let mut e = var(&mk);
                for a in args {
                    e = app(e, vec![a]);
                }
                e
            }
            _ => {
                // two closures from the same outer call
                let h = self.fresh_unique("h");
                let rest1: Vec<Expr> = args[1..].to_vec();
                let rest2: Vec<Expr> = args[1..].iter().map(|_| int(7)).collect();
                let_(&h, app(var(&mk), vec![args[0].clone()]), prim(PrimOp::IntSub, app(var(&h), rest1), app(var(&h), rest2)))
            }
        };
        let e = let_(&mk, def, use_);
        self.finish_int(e, ty, d)
    }

    /// records of 1..8 fields matched with 0..8 binders (compiler.rs switches strategy at > 4)
    fn comb_wide_record(&mut self, ty: &Ty, d: u32) -> Expr {
        self.used.push("comb:wide-record");
        let n = 1 + self.rng.below(8) as usize;
        let names: Vec<String> = FIELD_POOL[..n].iter().map(|s| s.to_string()).collect();
        let mut order: Vec<usize> = (0..n).collect();
        if self.rng.chance(1, 2) {
            for i in (1..n).rev() {
                let j = self.rng.below(i as u64 + 1) as usize;
                order.swap(i, j);
            }
        }
        let fields: Vec<(Name, Expr)> = order.iter().map(|i| (names[*i].clone(), if self.rng.chance(1, 4) { eff(int(*i as i64 + 1)) } else { int((*i as i64 + 1) * 3) })).collect();
        let k = self.rng.below(n as u64 + 1) as usize;
        let mut chosen: Vec<usize> = (0..n).collect();
        while chosen.len() > k {
            let i = self.rng.below(chosen.len() as u64) as usize;
            chosen.remove(i);
        }
        if self.rng.chance(1, 2) {
            chosen.reverse();
        }
        let mut pf = vec![];
        let mut sum = int(0);
        for (j, i) in chosen.iter().enumerate() {
            if self.rng.chance(1, 2) {
                pf.push((names[*i].clone(), None));
                sum = prim(PrimOp::IntAdd, prim(PrimOp::IntMul, sum, int(2)), var(&names[*i]));
            } else {
                let v = format!("rb{}_{}", self.fresh, j);
                pf.push((names[*i].clone(), Some(Pat::Var(v.clone()))));
                sum = prim(PrimOp::IntAdd, prim(PrimOp::IntMul, sum, int(2)), var(&v));
            }
        }
        self.fresh += 1;
        let r = self.fresh_unique("wrec");
        let rec_e = Expr::Record(fields, None);
        let e = match self.rng.below(3) {
            0 => Expr::Match(Box::new(rec_e), vec![(Pat::Record(pf), sum)]),
            1 => let_(&r, rec_e, Expr::Let(Pat::Record(pf), Box::new(var(&r)), Box::new(sum))),
            _ => {
                // through a (row-polymorphic) function
                let fnm = self.fresh_unique("getr");
                let p = self.fresh_unique("rp");
                let_(&fnm, lam(&[&p], Expr::Match(Box::new(var(&p)), vec![(Pat::Record(pf), sum)])), app(var(&fnm), vec![rec_e]))
            }
        };
        self.finish_int(e, ty, d)
    }

    /// nested / literal / as patterns with overlapping columns
    fn comb_overlap(&mut self, ty: &Ty, d: u32) -> Expr {
        self.used.push("comb:overlap");
        let st = match self.rng.below(4) {
            0 => Ty::Tuple(vec![Ty::named("T"), Ty::Int]),
            1 => Ty::Tuple(vec![Ty::Named("Opt".into(), vec![Ty::Int]), Ty::Bool]),
            2 => Ty::Tuple(vec![Ty::Int, Ty::Int, Ty::named("T")]),
            _ => Ty::Named("Opt".into(), vec![Ty::Tuple(vec![Ty::Int, Ty::named("T")])]),
        };
        let scrut = self.expr(&st, d.saturating_sub(1).max(1));
        let n = 2 + self.rng.below(4) as usize;
        let mut alts = vec![];
        for i in 0..n {
            let (p, binds) = self.refutable_pat(&st, 3);
            let mut body = int(i as i64 * 10);
            for (b, t) in &binds {
                if *t == Ty::Int && self.rng.chance(2, 3) {
                    body = prim(PrimOp::IntAdd, body, var(b));
                }
            }
            if Self::contains_record_pat(&p) && !self.cfg.features.multi_record_alts && alts.iter().any(|(q, _)| Self::contains_record_pat(q)) {
                continue;
            }
            alts.push((p, body));
        }
        if !(self.cfg.features.partial_matches && self.rng.chance(1, 3)) {
            alts.push((Pat::Wild, int(-1)));
        }
        let _ = Self::is_record_pat;
        self.finish_int(Expr::Match(Box::new(scrut), alts), ty, d)
    }

    /// `&&` / `||` whose right operand fails or has an effect
    fn comb_short_circuit(&mut self, ty: &Ty, d: u32) -> Expr {
        self.used.push("comb:short-circuit");
        let left = if self.rng.chance(1, 2) { bool_(self.rng.chance(1, 2)) } else { self.expr(&Ty::Bool, d.saturating_sub(1)) };
        let right = match self.rng.below(4) {
            0 => Expr::Error("rhs".into()),
            1 => prim(PrimOp::IntEq, prim(PrimOp::IntDiv, int(1), int(0)), int(0)),
            2 => prim(PrimOp::IntLt, eff(int(77)), int(5)),
            _ => Expr::Match(Box::new(Expr::Con("B".into(), vec![])), vec![(Pat::Con("A".into(), vec![Pat::Wild]), bool_(true))]),
        };
        let e = if self.rng.chance(1, 2) { Expr::And(Box::new(left), Box::new(right)) } else { Expr::Or(Box::new(left), Box::new(right)) };
        let e = Expr::If(Box::new(e), Box::new(int(1)), Box::new(int(0)));
        self.finish_int(e, ty, d)
    }

    /// arithmetic at i64::MIN / i64::MAX and division by zero
    fn comb_boundary(&mut self, ty: &Ty, d: u32) -> Expr {
        self.used.push("comb:boundary");
        let a = int(*self.rng.pick(&BOUNDARY_INTS));
        let b = int(*self.rng.pick(&[0i64, 1, -1, 2, i64::MAX, i64::MIN, 3037000500]));
        let op = *self.rng.pick(&[PrimOp::IntAdd, PrimOp::IntSub, PrimOp::IntMul, PrimOp::IntDiv]);
        let e = prim(op, a, b);
        let e = if self.rng.chance(1, 2) { e } else { prim(*self.rng.pick(&[PrimOp::IntAdd, PrimOp::IntSub, PrimOp::IntMul, PrimOp::IntDiv]), e, self.expr(&Ty::Int, d.saturating_sub(2))) };
        self.finish_int(e, ty, d)
    }

    /// effectful calls in every kind of position, to pin evaluation order
    fn comb_eff_order(&mut self, ty: &Ty, d: u32) -> Expr {
        self.used.push("comb:eff-order");
        let e = match self.rng.below(7) {
            0 => Expr::Proj(Box::new(Expr::Record(vec![("a".into(), eff(int(1))), ("b".into(), eff(int(2))), ("c".into(), eff(int(3)))], None)), "b".into()),
            1 => {
                let t = Expr::Tuple(vec![eff(int(1)), eff(int(2))]);
                Expr::Match(Box::new(t), vec![(Pat::Tuple(vec![Pat::Var("ta".into()), Pat::Var("tb".into())]), prim(PrimOp::IntSub, var("ta"), var("tb")))])
            }
            2 => Expr::Match(
                Box::new(Expr::Con("C".into(), vec![eff(int(1)), Expr::Con("A".into(), vec![eff(int(2))])])),
                vec![(Pat::Con("C".into(), vec![Pat::Var("ca".into()), Pat::Con("A".into(), vec![Pat::Var("cb".into())])]), prim(PrimOp::IntSub, var("ca"), var("cb"))), (Pat::Wild, int(0))],
            ),
            3 if self.cfg.features.arrays && self.cfg.features.array_prims => Expr::ArrayLen(Box::new(Expr::Array(vec![eff(int(1)), eff(int(2)), eff(int(3))]))),
            4 => app(Expr::Let(Pat::Wild, Box::new(eff(int(1))), Box::new(lam(&["ea", "eb"], prim(PrimOp::IntSub, var("ea"), var("eb"))))), vec![eff(int(2)), eff(int(3))]),
            5 => Expr::If(Box::new(prim(PrimOp::IntLt, eff(int(1)), eff(int(2)))), Box::new(eff(int(3))), Box::new(eff(int(4)))),
            _ => {
                // record update: explicit fields in source order, then the base
                let base = Expr::Let(Pat::Wild, Box::new(eff(int(9))), Box::new(Expr::Record(vec![("a".into(), int(0)), ("b".into(), int(0)), ("c".into(), int(0))], None)));
                let upd = Expr::Record(vec![("c".into(), eff(int(1))), ("z".into(), eff(int(2))), ("a".into(), eff(int(3)))], Some(Box::new(base)));
                Expr::Proj(Box::new(upd), self.rng.pick(&["a", "b", "c", "z"]).to_string())
            }
        };
        self.finish_int(e, ty, d)
    }
}

// =================================================================== exhaustive enumeration

/// Parameters of the exhaustive enumerator.
#[derive(Clone, Debug)]
pub struct EnumConfig {
    /// maximal AST size (number of expression nodes)
    pub max_size: usize,
    /// include `eff`
    pub eff: bool,
}

/// the alphabet's types
#[derive(Clone, Copy, PartialEq, Eq, Hash, Debug)]
enum ETy {
    Int,
    Bool,
    Fun, // Int -> Int
    Rcd, // { a : Int, b : Int }
    Var, // T of std_types
}

fn ety(t: ETy) -> Ty {
    match t {
        ETy::Int => Ty::Int,
        ETy::Bool => Ty::Bool,
        ETy::Fun => Ty::fun(vec![Ty::Int], Ty::Int),
        ETy::Rcd => Ty::Record(vec![("a".into(), Ty::Int), ("b".into(), Ty::Int)]),
        ETy::Var => Ty::named("T"),
    }
}

/// All well-typed closed programs of size ≤ `max_size` over the alphabet: Int literals {0, 1},
/// at most two bound variables at a time (`x`, `y`, named by nesting depth), `#Int+`, `#Int/`,
/// `#Int<`, `&&`, `if`, `let`, one-argument lambda and application (type Int -> Int), the record
/// type `{ a : Int, b : Int }` (construction, projection, update of `a`), the variant `T`
/// (`A Int | B | C Int T`: constructors `A e`, `B` and a two-alternative `match`), `eff`.
/// Programs are returned with their type, smallest first.
pub fn enumerate(cfg: &EnumConfig) -> Vec<Program> {
    let mut out = vec![];
    let mut memo = std::collections::HashMap::new();
    for size in 1..=cfg.max_size {
        for t in [ETy::Int, ETy::Bool, ETy::Rcd, ETy::Var, ETy::Fun] {
            for e in enum_at(t, size, &[], cfg, &mut memo).iter() {
                out.push(Program { types: std_types(), expr: e.clone(), ty: ety(t) });
            }
        }
    }
    out
}

type Memo = std::collections::HashMap<(ETy, usize, Vec<ETy>), std::rc::Rc<Vec<Expr>>>;

fn vname(i: usize) -> String {
    ["x", "y", "z", "u"][i.min(3)].to_string()
}

fn enum_at(t: ETy, size: usize, env: &[ETy], cfg: &EnumConfig, memo: &mut Memo) -> std::rc::Rc<Vec<Expr>> {
    let key = (t, size, env.to_vec());
    if let Some(v) = memo.get(&key) {
        return v.clone();
    }
    let mut out: Vec<Expr> = vec![];
    if size == 1 {
        match t {
            ETy::Int => {
                out.push(int(0));
                out.push(int(1));
            }
            ETy::Bool => {
                out.push(bool_(true));
                out.push(bool_(false));
            }
            ETy::Var => out.push(Expr::Con("B".into(), vec![])),
            _ => {}
        }
        for (i, vt) in env.iter().enumerate() {
            if *vt == t {
                out.push(var(&vname(i)));
            }
        }
    } else {
        let rest = size - 1;
        // unary constructs: child of size `rest`
        let un = |ct: ETy, memo: &mut Memo| enum_at(ct, rest, env, cfg, memo);
        match t {
            ETy::Int => {
                if cfg.eff {
                    for e in un(ETy::Int, memo).iter() {
                        out.push(eff(e.clone()));
                    }
                }
                for e in un(ETy::Rcd, memo).iter() {
                    out.push(Expr::Proj(Box::new(e.clone()), "a".into()));
                    out.push(Expr::Proj(Box::new(e.clone()), "b".into()));
                }
            }
            ETy::Var => {
                for e in un(ETy::Int, memo).iter() {
                    out.push(Expr::Con("A".into(), vec![e.clone()]));
                }
            }
            ETy::Fun => {
                if env.len() < 2 {
                    let mut env2 = env.to_vec();
                    env2.push(ETy::Int);
                    for e in enum_at(ETy::Int, rest, &env2, cfg, memo).iter() {
                        out.push(Expr::Lam(vec![vname(env.len())], Box::new(e.clone())));
                    }
                }
            }
            _ => {}
        }
        // binary constructs
        for s1 in 1..rest {
            let s2 = rest - s1;
            let mut bin = |t1: ETy, t2: ETy, env2: Option<Vec<ETy>>, mk: &dyn Fn(&Expr, &Expr) -> Expr, memo: &mut Memo, out: &mut Vec<Expr>| {
                let a = enum_at(t1, s1, env, cfg, memo);
                let b = match &env2 {
                    Some(e2) => enum_at(t2, s2, e2, cfg, memo),
                    None => enum_at(t2, s2, env, cfg, memo),
                };
                for x in a.iter() {
                    for y in b.iter() {
                        out.push(mk(x, y));
                    }
                }
            };
            match t {
                ETy::Int => {
                    bin(ETy::Int, ETy::Int, None, &|a, b| prim(PrimOp::IntAdd, a.clone(), b.clone()), memo, &mut out);
                    bin(ETy::Int, ETy::Int, None, &|a, b| prim(PrimOp::IntDiv, a.clone(), b.clone()), memo, &mut out);
                    bin(ETy::Fun, ETy::Int, None, &|a, b| app(a.clone(), vec![b.clone()]), memo, &mut out);
                }
                ETy::Bool => {
                    bin(ETy::Int, ETy::Int, None, &|a, b| prim(PrimOp::IntLt, a.clone(), b.clone()), memo, &mut out);
                    bin(ETy::Bool, ETy::Bool, None, &|a, b| Expr::And(Box::new(a.clone()), Box::new(b.clone())), memo, &mut out);
                }
                ETy::Rcd => {
                    bin(ETy::Int, ETy::Int, None, &|a, b| Expr::Record(vec![("a".into(), a.clone()), ("b".into(), b.clone())], None), memo, &mut out);
                    bin(ETy::Int, ETy::Rcd, None, &|a, b| Expr::Record(vec![("a".into(), a.clone())], Some(Box::new(b.clone()))), memo, &mut out);
                }
                _ => {}
            }
            // let x = e1 in e2 for every type of e1 (at most two variables in scope)
            if env.len() < 2 {
                for t1 in [ETy::Int, ETy::Fun, ETy::Rcd, ETy::Var] {
                    let mut env2 = env.to_vec();
                    env2.push(t1);
                    let x = vname(env.len());
                    bin(t1, t, Some(env2), &|a, b| let_(&x, a.clone(), b.clone()), memo, &mut out);
                }
            }
        }
        // ternary constructs: if, match (scrutinee, A-branch with the field bound, default branch)
        if rest >= 3 {
            for s1 in 1..rest - 1 {
                for s2 in 1..rest - s1 {
                    let s3 = rest - s1 - s2;
                    let c = enum_at(ETy::Bool, s1, env, cfg, memo);
                    let a = enum_at(t, s2, env, cfg, memo);
                    let b = enum_at(t, s3, env, cfg, memo);
                    for x in c.iter() {
                        for y in a.iter() {
                            for z in b.iter() {
                                out.push(Expr::If(Box::new(x.clone()), Box::new(y.clone()), Box::new(z.clone())));
                            }
                        }
                    }
                    if env.len() < 2 && t != ETy::Fun {
                        let sc = enum_at(ETy::Var, s1, env, cfg, memo);
                        let mut env2 = env.to_vec();
                        env2.push(ETy::Int);
                        let a = enum_at(t, s2, &env2, cfg, memo);
                        let v = vname(env.len());
                        for x in sc.iter() {
                            for y in a.iter() {
                                for z in b.iter() {
                                    out.push(Expr::Match(
                                        Box::new(x.clone()),
                                        vec![(Pat::Con("A".into(), vec![Pat::Var(v.clone())]), y.clone()), (Pat::Con("B".into(), vec![]), z.clone())],
                                    ));
                                }
                            }
                        }
                    }
                }
            }
        }
    }
    let rc = std::rc::Rc::new(out);
    memo.insert(key, rc.clone());
    rc
}

// =================================================================== shrinking

/// One-step simplifications of an expression (candidates for delta debugging): every
/// sub-expression replaced by one of its own children or by a small literal, bindings and
/// alternatives dropped.  Candidates need not be well typed — the caller keeps a candidate only
/// if the implementation still accepts it and the disagreement persists.
pub fn shrink_candidates(e: &Expr) -> Vec<Expr> {
    let mut out = vec![];
    let n = e.size();
    for i in 0..n {
        for r in replacements_at(e, i) {
            out.push(r);
        }
    }
    out
}

fn replacements_at(root: &Expr, index: usize) -> Vec<Expr> {
    // find the sub-expression with pre-order index `index`
    let mut target: Option<&Expr> = None;
    let mut k = 0;
    root.visit(&mut |e| {
        if k == index {
            target = Some(e);
        }
        k += 1;
    });
    let Some(t) = target else { return vec![] };
    let mut subs: Vec<Expr> = vec![];
    match t {
        Expr::Lit(_) | Expr::Var(_) => {}
        _ => {
            // small closed values of the common types: the ill-typed ones are refused by the
            // real type checker when the candidate is validated
            subs.push(int(0));
            subs.push(bool_(false));
            subs.push(unit());
            subs.push(Expr::Lit(Lit::Str(String::new())));
            subs.push(Expr::Lit(Lit::Byte(0)));
            subs.push(Expr::Lit(Lit::Char('a')));
            subs.push(Expr::Con("B".into(), vec![]));
        }
    }
    match t {
        Expr::Let(_, _, b) | Expr::Seq(_, b) => subs.push((**b).clone()),
        Expr::Rec(_, b) => subs.push((**b).clone()),
        Expr::If(_, a, b) => {
            subs.push((**a).clone());
            subs.push((**b).clone());
        }
        Expr::Prim(_, a, b) | Expr::And(a, b) | Expr::Or(a, b) => {
            subs.push((**a).clone());
            subs.push((**b).clone());
        }
        Expr::Eff(a) | Expr::Ann(a, _) => subs.push((**a).clone()),
        Expr::Match(s, alts) => {
            for i in 0..alts.len() {
                if alts.len() > 1 {
                    let mut a2 = alts.clone();
                    a2.remove(i);
                    subs.push(Expr::Match(s.clone(), a2));
                }
                subs.push(alts[i].1.clone());
            }
        }
        Expr::Record(fs, base) => {
            if let Some(b) = base {
                subs.push((**b).clone());
                subs.push(Expr::Record(fs.clone(), None));
            }
            for i in 0..fs.len() {
                let mut f2 = fs.clone();
                f2.remove(i);
                subs.push(Expr::Record(f2, base.clone()));
            }
        }
        Expr::App(f, args) => {
            subs.push((**f).clone());
            for a in args {
                subs.push(a.clone());
            }
        }
        Expr::Lam(_, b) => subs.push((**b).clone()),
        _ => {}
    }
    subs.into_iter().map(|s| replace_at(root, index, &s)).collect()
}

/// The sub-expression with pre-order index `index` (the order of [`Expr::visit`]) replaced.
pub fn replace_subexpr(root: &Expr, index: usize, with: &Expr) -> Expr {
    replace_at(root, index, with)
}

fn replace_at(root: &Expr, index: usize, with: &Expr) -> Expr {
    fn go(e: &Expr, k: &mut usize, index: usize, with: &Expr) -> Expr {
        let me = *k;
        *k += 1;
        if me == index {
            // skip the indices of the replaced subtree
            *k += e.size() - 1;
            return with.clone();
        }
        let mut r = |x: &Expr| go(x, k, index, with);
        match e {
            Expr::Lit(_) | Expr::Var(_) | Expr::Error(_) => e.clone(),
            Expr::Lam(p, b) => Expr::Lam(p.clone(), Box::new(r(b))),
            Expr::App(f, args) => {
                let f2 = r(f);
                Expr::App(Box::new(f2), args.iter().map(|a| r(a)).collect())
            }
            Expr::Let(p, a, b) => {
                let a2 = r(a);
                Expr::Let(p.clone(), Box::new(a2), Box::new(r(b)))
            }
            Expr::Prim(op, a, b) => {
                let a2 = r(a);
                Expr::Prim(*op, Box::new(a2), Box::new(r(b)))
            }
            Expr::And(a, b) => {
                let a2 = r(a);
                Expr::And(Box::new(a2), Box::new(r(b)))
            }
            Expr::Or(a, b) => {
                let a2 = r(a);
                Expr::Or(Box::new(a2), Box::new(r(b)))
            }
            Expr::Seq(a, b) => {
                let a2 = r(a);
                Expr::Seq(Box::new(a2), Box::new(r(b)))
            }
            Expr::ArrayIndex(a, b) => {
                let a2 = r(a);
                Expr::ArrayIndex(Box::new(a2), Box::new(r(b)))
            }
            Expr::Rec(bs, b) => {
                let bs2 = bs.iter().map(|x| RecBind { name: x.name.clone(), params: x.params.clone(), body: r(&x.body) }).collect();
                Expr::Rec(bs2, Box::new(r(b)))
            }
            Expr::If(a, b, c) => {
                let a2 = r(a);
                let b2 = r(b);
                Expr::If(Box::new(a2), Box::new(b2), Box::new(r(c)))
            }
            Expr::Record(fs, base) => {
                let f2 = fs.iter().map(|(n, x)| (n.clone(), r(x))).collect();
                Expr::Record(f2, base.as_ref().map(|b| Box::new(r(b))))
            }
            Expr::Proj(a, l) => Expr::Proj(Box::new(r(a)), l.clone()),
            Expr::ArrayLen(a) => Expr::ArrayLen(Box::new(r(a))),
            Expr::Eff(a) => Expr::Eff(Box::new(r(a))),
            Expr::Ann(a, t) => Expr::Ann(Box::new(r(a)), t.clone()),
            Expr::Tuple(es) => Expr::Tuple(es.iter().map(|x| r(x)).collect()),
            Expr::Con(c, es) => Expr::Con(c.clone(), es.iter().map(|x| r(x)).collect()),
            Expr::Array(es) => Expr::Array(es.iter().map(|x| r(x)).collect()),
            Expr::Match(s, alts) => {
                let s2 = r(s);
                Expr::Match(Box::new(s2), alts.iter().map(|(p, x)| (p.clone(), r(x))).collect())
            }
        }
    }
    let mut k = 0;
    go(root, &mut k, index, with)
}
