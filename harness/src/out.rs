use std::collections::BTreeMap;
use std::io::Write;

/// Command-line arguments shared by all harness binaries:
///   --tier quick|thorough  --seed N  --out DIR  [--replay FILE] [extra key=value ...]
pub struct Args {
    pub tier: String,
    pub seed: u64,
    pub out: std::path::PathBuf,
    pub replay: Option<String>,
    pub extra: BTreeMap<String, String>,
    pub rest: Vec<String>,
}

impl Args {
    pub fn parse() -> Args {
        let mut a = Args {
            tier: std::env::var("VERIF_TIER").unwrap_or_else(|_| "quick".into()),
            seed: std::env::var("VERIF_SEED").ok().and_then(|s| s.parse().ok()).unwrap_or(1),
            out: std::path::PathBuf::from("."),
            replay: None,
            extra: BTreeMap::new(),
            rest: Vec::new(),
        };
        let mut it = std::env::args().skip(1);
        while let Some(x) = it.next() {
            match x.as_str() {
                "--tier" => a.tier = it.next().expect("--tier VALUE"),
                "--seed" => a.seed = it.next().expect("--seed N").parse().expect("seed"),
                "--out" => a.out = it.next().expect("--out DIR").into(),
                "--replay" => a.replay = Some(it.next().expect("--replay FILE")),
                _ => {
                    if let Some((k, v)) = x.split_once('=') {
                        a.extra.insert(k.to_string(), v.to_string());
                    } else {
                        a.rest.push(x)
                    }
                }
            }
        }
        std::fs::create_dir_all(&a.out).ok();
        a
    }
    pub fn thorough(&self) -> bool {
        self.tier == "thorough"
    }
    pub fn file(&self, name: &str) -> std::io::BufWriter<std::fs::File> {
        std::io::BufWriter::new(std::fs::File::create(self.out.join(name)).expect("create out file"))
    }
}

/// Histogram written into the evidence (input distribution).
#[derive(Default)]
pub struct Hist(pub BTreeMap<String, u64>);
impl Hist {
    pub fn add(&mut self, k: &str) {
        *self.0.entry(k.to_string()).or_insert(0) += 1;
    }
    pub fn addn(&mut self, k: &str, n: u64) {
        *self.0.entry(k.to_string()).or_insert(0) += n;
    }
    pub fn to_json(&self) -> serde_json::Value {
        serde_json::to_value(&self.0).unwrap()
    }
}

pub fn write_json(path: &std::path::Path, v: &serde_json::Value) {
    let mut f = std::fs::File::create(path).expect("create json");
    f.write_all(serde_json::to_string_pretty(v).unwrap().as_bytes()).unwrap();
}

/// FNV-1a, used to count distinct cases.
pub fn fnv(s: &[u8]) -> u64 {
    let mut h: u64 = 0xcbf29ce484222325;
    for b in s {
        h ^= *b as u64;
        h = h.wrapping_mul(0x100000001b3);
    }
    h
}
