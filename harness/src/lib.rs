//! Shared helpers for the correspondence harness binaries (one per property under src/bin).
pub mod rng;
pub mod out;
pub mod tr;
pub mod mg;
